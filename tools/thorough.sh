#!/bin/bash
# tools/thorough.sh [checks...]  - runs the thorough tier of the given (default: all) checks once, prints status and wall time
cd "$(dirname "$0")/.."
export VERIF_NO_EVIDENCE=1
cs=("$@"); [ ${#cs[@]} -eq 0 ] && cs=($(seq -f 'C%02g' 1 20))
for c in "${cs[@]}"; do
  t0=$(date +%s)
  out=$(./check $c thorough 2>&1); rc=$?
  t1=$(date +%s)
  echo "$c rc=$rc wall=$((t1-t0))s :: $(echo "$out" | grep -E "^$c thorough" | cut -c1-200)"
  [ $rc -ne 0 ] && echo "$out" | grep -E "violation:|inconclusive:" | head -5 | cut -c1-400
done
exit 0
