#!/bin/bash
# tools/confirm_seed.sh <Cxx> <A|B> [checks...]
# Confirms a sub-agent's seeded change in a scratch worktree (demo passes without / fails with the patch,
# library builds, existing suite passes), stores it under /verif/seeded/<Cxx>-<X>/ and runs the given checks
# (default: the property's own check) against /repo with the patch applied.
set -u
ID="$1"; X="$2"; shift 2
SRC=${SEEDROOT:-/tmp/seed}/$ID-out
TAG=${SEEDTAG:-}
[ -f "$SRC/$X.patch.diff" ] || { echo "no patch $SRC/$X.patch.diff"; exit 2; }
export GOFLAGS=-mod=mod GOPROXY=off GOSUMDB=off GOTOOLCHAIN=local
W=/tmp/confirm-$ID-$TAG$X
git -C /repo worktree remove --force "$W" 2>/dev/null
git -C /repo worktree add -q --detach "$W" HEAD || exit 2
cleanup() { git -C /repo worktree remove --force "$W" 2>/dev/null; }
trap cleanup EXIT
DEMO=$(ls $SRC/${X}_demo*.go 2>/dev/null | head -1)
[ -n "$DEMO" ] || { echo "no demo"; exit 2; }
pkg=$(grep -m1 '^package ' "$DEMO" | awk '{print $2}')
case "$pkg" in
  dag|dag_test) dest="$W/dag/zz_seed_demo_test.go"; run="./dag";;
  main) echo "main-program demo: confirm manually"; exit 3;;
  option|option_test) dest="$W/internal/option/zz_seed_demo_test.go"; run="./internal/option";;
  help|help_test) dest="$W/internal/help/zz_seed_demo_test.go"; run="./internal/help";;
  *) dest="$W/zz_seed_demo_test.go"; run=".";;
esac
cp "$DEMO" "$dest"
tname=$(grep -o 'func Test[A-Za-z0-9_]*' "$dest" | awk '{print $2}' | paste -sd'|')
( cd "$W" && go test -tags verif -vet=off -count=1 -run "^($tname)\$" $run ) > /tmp/confirm-$ID-$TAG$X.clean.log 2>&1; rc_clean=$?
( cd "$W" && git apply "$SRC/$X.patch.diff" ) || { echo "$ID-$TAG$X: patch does not apply"; exit 2; }
( cd "$W" && go build ./... ) > /tmp/confirm-$ID-$TAG$X.build.log 2>&1; rc_build=$?
( cd "$W" && go test -tags verif -vet=off -count=1 -run "^($tname)\$" $run ) > /tmp/confirm-$ID-$TAG$X.patched.log 2>&1; rc_patched=$?
rm -f "$dest"
( cd "$W" && go test -vet=off -count=1 ./... ) > /tmp/confirm-$ID-$TAG$X.suite.log 2>&1; rc_suite=$?
echo "$ID-$TAG$X: demo clean rc=$rc_clean  build rc=$rc_build  demo patched rc=$rc_patched  suite patched rc=$rc_suite"
if [ $rc_clean -ne 0 ] || [ $rc_build -ne 0 ] || [ $rc_patched -eq 0 ] || [ $rc_suite -ne 0 ]; then
  echo "$ID-$TAG$X: NOT CONFIRMED (see /tmp/confirm-$ID-$TAG$X.*.log)"; exit 1
fi
D=/verif/seeded/$ID-$TAG$X
mkdir -p "$D"
cp "$SRC/$X.patch.diff" "$D/patch.diff"
cp "$DEMO" "$D/$(basename "$DEMO")"
checks=("$@"); [ ${#checks[@]} -eq 0 ] && checks=("$ID")
: > "$D/detect.txt"
for c in "${checks[@]}"; do /verif/tools/try_patch.sh "$D/patch.diff" "$c" 2>&1 | cut -c1-400 | tee -a "$D/detect.txt"; done
/opt/veriftools/pyvenv/bin/python - "$ID" "$X" "$SRC" "$D" "$tname" "$run" <<'PY'
import json,sys
ID,X,SRC,D,tname,run=sys.argv[1:]
try: meta=json.load(open(f"{SRC}/{X}.meta.json"))
except Exception as e: meta={"note":"agent meta unreadable: %s"%e}
det=[l.strip() for l in open(f"{D}/detect.txt", errors='replace') if l.strip()]
out={"breaks_property":ID,"source":"independent sub-agent given only the property text and a scratch worktree",
 "summary":meta.get("summary"),"needs_to_manifest":meta.get("needs_to_manifest"),"why_existing_tests_pass":meta.get("why_tests_pass"),
 "confirmed":{"how":"scratch worktree of /repo HEAD: demo test passes on the clean tree; with patch.diff applied `go build ./...` ok, the full existing suite (go test -vet=off -count=1 ./...) passes and the demo fails",
              "demo_cmd":f"copy the demo into the package directory, go test -vet=off -count=1 -run '^({tname})$' {run}"},
 "checks_run":det}
json.dump(out,open(f"{D}/meta.json","w"),indent=1)
PY
rm -f /tmp/confirm-$ID-$TAG$X.*.log
