#!/bin/bash
# tools/sweep.sh <tier> <seed>...   - runs every check at the given seeds, prints one line per (check, seed) that is not clean
cd "$(dirname "$0")/.."
tier="$1"; shift
export VERIF_NO_EVIDENCE=1
fail=0
for s in "$@"; do
  for c in $(seq -f 'C%02g' 1 20); do
    out=$(VERIF_SEED=$s ./check $c $tier 2>&1); rc=$?
    inc=$(echo "$out" | grep -c "inconclusive:")
    if [ $rc -ne 0 ] || [ $inc -ne 0 ]; then fail=1; echo "seed=$s $c rc=$rc inconclusive_lines=$inc"; echo "$out" | grep -E "violation:|inconclusive:|VIOLATION" | head -5 | cut -c1-400; fi
  done
  echo "seed $s done"
done
exit $fail
