#!/bin/bash
# stage 1 of the mutation sweep: which generated mutants compile and pass the pinned suite ("survivors")
# usage: mut_stage1.sh <gendir> <outfile>   (uses 8 scratch copies of /repo under /tmp/mut)
export GOFLAGS=-mod=mod GOPROXY=off GOSUMDB=off GOTOOLCHAIN=local
GEN="$1"; OUT="$2"; : > "$OUT"
N=8
for k in $(seq 1 $N); do rm -rf /tmp/mut/repo-$k; mkdir -p /tmp/mut/repo-$k; rsync -a --exclude .git /repo/ /tmp/mut/repo-$k/; done
ls $GEN/*/*.go | sort > /tmp/mut/all.txt
worker() {
  k=$1
  awk -v k=$k -v n=$N 'NR % n == k % n' /tmp/mut/all.txt | while read m; do
    d=$(basename $(dirname $m)); f=$(echo $d | tr '_' '/')
    [ "$d" = "user_options.go" ] && f=user_options.go
    [ "$d" = "user_help.go" ] && f=user_help.go
    [ "$d" = "internal_option_option.go" ] && f=internal/option/option.go
    [ "$d" = "internal_help_help.go" ] && f=internal/help/help.go
    [ "$d" = "dag_dag.go" ] && f=dag/dag.go
    cp $m /tmp/mut/repo-$k/$f
    if (cd /tmp/mut/repo-$k && go build ./... >/dev/null 2>&1 && timeout 120 go test -vet=off -count=1 ./... >/dev/null 2>&1); then
      echo "$m|$f|$(cat ${m%.go}.txt)" >> "$OUT.$k"
    fi
    cp /repo/$f /tmp/mut/repo-$k/$f
  done
}
for k in $(seq 1 $N); do worker $k & done
wait
cat "$OUT".* > "$OUT" 2>/dev/null; rm -f "$OUT".*
wc -l "$OUT"
