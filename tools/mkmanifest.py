#!/usr/bin/env python3
"""Regenerates /verif/MANIFEST.json from the table below (kept valid at all times)."""
import json, os, sys
V = os.path.dirname(os.path.dirname(os.path.abspath(__file__)))
props = [json.loads(l)["id"] for l in open(os.path.join(V, "properties.jsonl"))]

BASE_OFF = ("cd /repo && export GOFLAGS=-mod=mod GOPROXY=off GOSUMDB=off GOTOOLCHAIN=local && "
            "for m in . ./internal/completion/test; do (cd $m && go test -json -vet=off -count=1 -timeout 25m ./...) ; done")

# id -> (engine, technique, level text, level note, design ref)
PARSER_NOTE = ("Trusted: the spec->public-API builder, the intended-parse fold / local model named in the technique, Go strconv as conversion oracle; "
               "argv is rendered only where the documented rules are unambiguous (DESIGN appendix A). Nothing is claimed for shapes the generators do not produce.")
def P(tech, text, ref, note=PARSER_NOTE):
    return ("parser-monitors", tech, text, note, ref)
DAG_NOTE = ("Trusted: the controlled-schedule harness (task closures that park until released), the two build-tag-guarded scheduler hooks (idle tick, loop iteration), "
            "the goroutine dump read before every no-progress verdict, the Go race detector. "
            "Completion orders are controlled, Go-scheduler interleavings inside one scheduler iteration are only sampled; no-progress verdicts are taken in logical time "
            "(idle ticks / loop iterations with unchanged state, every task goroutine blocked in two dumps); wall-clock watchdogs end as inconclusive, never as verdicts.")
def D(tech, text, ref):
    return ("dag-monitors", tech, text, DAG_NOTE, ref)
CHECKS = {
 "C01": P("runtime monitor: strconv/identity conversion oracle over values read back after real Parse executions of hostile value texts",
          "Each case executes the real Parse on a hostile value text (arbitrary bytes, dashes, '=', whitespace, newlines, boundary/malformed numerals) in both spellings, all scalar kinds and modes, inside random surrounding argv; the monitor compares Value/pointer/Var/Called with Go's decimal conversion. Held on the executions counted in evidence.",
          "5 (C01)"),
 "C02": P("runtime monitor: local consumption model (the statement, literally) vs what real Parse stored and left over",
          "The (kind x (min,max) x attached x preceding elements x follower-token class x position) grid is enumerated completely in quick; thorough adds random multi-occurrence runs. Every case is a real Parse execution checked against the intake model (values in order, conversions, ranges, map split, leftovers interpreted normally).",
          "5 (C02)"),
 "C03": P("runtime monitor over real Parse executions: token-conservation accounting against the intended-parse fold + subsequence monitor",
          "Every generated argv is parsed by the real library; a monitor checks that remaining is exactly the unconsumed tokens (order, multiplicity, bytes) and that every consumed token shows up in the option it was written for. Held on the executions listed in evidence; says nothing about argv shapes the generator does not render.",
          "5 (C03), appendix A"),
 "C04": P("runtime monitor: metamorphic comparison of two real executions (A vs A ++ `--` ++ T) with fold anchor",
          "For every context class of the prefix A (incl. optional-value and multi-value options below max, and the mandatory-value case that takes `--`) and hostile tails, both command lines are executed (Parse+Dispatch) and compared: remaining extended by T verbatim, same option state, same command, same warnings.",
          "5 (C04)"),
 "C05": P("runtime monitor: key-set classification oracle over real Parse executions of every prefix of every key",
          "Exhaustive over prefixes within each generated adversarial name set (root level and command level with inherited keys), all spellings that denote one name in the mode; exact/unique prefixes compared with the full-name execution, ambiguous ones must error listing all candidates and leave the state of the cut command line.",
          "5 (C05)"),
 "C06": P("runtime monitor: intended-outcome fold over every key at every level + alias/primary-name metamorphic pair",
          "Each case executes real Parse on argv using random aliases/abbreviations; the monitor reads Called/CalledAs/Value through every key at every command level plus the definition pointer/Var and compares with the fold, including that every unmentioned option keeps its declared default (deep) and Called false; env bindings and SetCalled included.",
          "5 (C06)"),
 "C07": P("runtime monitor: metamorphic equality between a command line and its documented rewriting, both executed by the real parser",
          "Single-dash tokens of each mode's shape are executed and compared (complete outcome) with the execution of their documented rewriting in the same mode; the long-only rendering is executed in all three modes and must agree. The long side is anchored on the fold.",
          "5 (C07)"),
 "C08": P("runtime monitor: per-mode unknown-option rule + deletion metamorphism on real Parse executions",
          "Unknown option tokens (long, short, bundled, with values) at every position class of random trees incl. wrappers and per-command modes: Fail must error naming the first one, Warn must warn on Writer and keep the token, Pass must keep it; known options around them must end in the same state as on the command line without them.",
          "5 (C08)"),
 "C09": P("runtime monitor: metamorphic equality between require-order execution of P ++ s ++ T and execution of P without require-order",
          "Stop-token kinds x hostile tails x all mode products; both sides are real Parse+Dispatch executions; remaining must be s ++ T verbatim, option state / selected command / warnings must equal those of P alone.",
          "5 (C09)"),
 "C10": P("runtime monitor: instrumented CommandFns checked against the intended command path on real Parse+Dispatch executions",
          "Random trees (depth<=3, wrappers, fn-less nodes, failing fns) and argv with command names in value / post-`--` / post-stop positions; the monitor records who ran, how often, ctx marker, args and the option view handed over.",
          "5 (C10)"),
 "C11": P("runtime monitor: required-set and help-bypass rules over CommandFn log, errors.Is and Writer on real Parse+Dispatch executions",
          "Every subset of the (<=4) required options visible at the target is supplied (name/alias/abbreviation/env) x six help forms; help text compared byte-for-byte with Help() of an identically built program parked on the level.",
          "5 (C11)"),
 "C13": D("runtime monitoring under the Go race detector: offline precedence checker over the sequence-numbered task enter/exit event log of real Graph.Run executions with controller-chosen completion orders; plain dependency cells decide visibility",
          "Small scope exhaustive (all DAGs n<=3 quick / n<=4 thorough x outcome scripts x 4 modes x every completion order the controller can reach), random larger DAGs, uncontrolled and eager stress runs; every run is the real scheduler, the monitor decides precedence/attempt rules from the log and the race detector decides the visibility clause.",
          "6 (C13)"),
 "C14": D("runtime monitoring under the Go race detector: outcome rules over event log, returned *dag.Errors (errors.As/Is per entry) and recorded Logger lines, controller-placed cancellation points",
          "Outcome assignments x completion orders x cancel points (before Run, after every k-th release, from inside a task) on all small DAGs and random larger ones; the monitor checks who was started, what Run returned and what was reported.",
          "6 (C14)"),
 "C15": D("runtime monitoring under the Go race detector: live-task counter / interval checker over the event log, contiguity checker over bytes received by an unsynchronized writer, plain counters raced on purpose",
          "Saturating workloads where the controller holds tasks open so that the bound is pressed (runs with peak==limit counted), serial mode with an unsynchronized shared counter, 2-4 concurrently running graphs over the same Task objects, buffered output with several chunks per attempt.",
          "6 (C15)"),
 "C16": D("runtime monitoring under the Go race detector: scheduler hook invariants in logical time (idle-tick fixpoint = deadlock; silent loop iterations = spinning scheduler; launched-but-not-entered tasks with free capacity = work conservation), goroutine-dump check that every task goroutine is blocked before any no-progress verdict, work-conservation check at fresh quiescent points, cycle/definition-error rule, topological check of DepthFirstSort",
          "All public-API construction histories up to length 3 (quick) / 4 (thorough) over 3 tasks plus random longer ones (re-adds, duplicate/self edges, cycles, nil tasks) are built and run to completion or to a verdict; random DAGs for work conservation.",
          "6 (C16)"),
 "C17": P("runtime monitor: candidate-set oracle computed from the program spec over the list written by the real completion path (in process via the verif setters and by a real driver process leaving through os.Exit) + acceptance replay through the real parser",
          "Random trees x COMP_LINE shapes x bash/zsh: the offered options must be exactly the keys of the level reached that start with the typed text, other words exactly the subcommands/static suggestions with the prefix plus what dynamic functions return, `--name=` exactly the suggested/valid values; sorted; exit status 124 exactly once; no CommandFn; every offered option/command is replayed through the real parser.",
          "5 (C17), note N2"),
 "C18": P("runtime monitor: structural counter over sections/entries of the help text produced by the real library + three-way equality (help option, help command, Help())",
          "All 12 option kinds stratified, aliases, required/env/multi-line descriptions/argument names, trees with wrappers; every level of every generated tree is checked: one entry per option with all aliases, required section, defaults, env, synopsis brackets, commands once with description.",
          "5 (C18)"),
 "C19": P("runtime monitoring: recover()-based panic monitor, error-contract and exit-path monitors, on-disk journal + bounded-progress watchdog; seeded hostile generator and Go native coverage-guided fuzzing as workload generators",
          "Hostile byte strings, 1 MiB tokens, 10^5-letter bundles, 10^5 tokens against 16 fixed definitions and 7 entry points, then coverage-guided fuzzing of two targets; a panic, a non-nil remaining with an error, a completion that does not leave through the exit path or a reproducible stall is a violation.",
          "5 (C19)"),
 "C20": P("runtime monitor: equality of the complete outcome tuple over 25 fresh in-process repetitions and over separate driver processes",
          "Definitions with >=2 entries in every table and inputs that make >=2 alternatives eligible (missing required options at Parse and Dispatch level, unknown options, ambiguity candidates, help of every level, completion lists) are executed repeatedly; any difference in values, remaining, error text, warnings, help text or completion list is a violation.",
          "5 (C20)"),
 "C12": P("runtime monitor: CLI > env > default precedence table over values read back after real definitions (env set) and Parse executions",
          "The kind x env-class x CLI-class x default x pointer/Var grid is enumerated completely in quick, hostile texts added; value/Called/CalledAs asserted except the two cases the statement leaves open (listed in DESIGN N3).",
          "5 (C12)"),
}

def main():
    checks = []
    for pid in props:
        if pid not in CHECKS:
            continue
        eng, tech, text, note, ref = CHECKS[pid]
        checks.append({
            "property_id": pid,
            "quick_cmd": f"./check {pid} quick",
            "thorough_cmd": f"./check {pid} thorough",
            "evidence_file": f"/verif/evidence/{pid}.json",
            "replay_cmd_template": "./check replay {path}",
            "engine": eng,
            "level_claimed": {"category": "exploration", "text": text, "design_ref": "DESIGN.md section " + ref},
            "level_note": note,
            "technique": tech,
        })
    na = [{"property_id": p, "reason": "check not built yet (work in progress); the design in DESIGN.md applies runtime monitoring to it"} for p in props if p not in CHECKS]
    m = {
        "version": 1,
        "setup_cmd": "./setup.sh",
        "hooks": {
            "guard": "verif",
            "enable": "go build -tags verif (the harness module replaces github.com/DavidGamba/go-getoptions with /repo)",
            "baseline_off_cmd": BASE_OFF,
            "source_commits": [l.strip() for l in open(os.path.join(V, "MANIFEST.hooks")) if l.strip() and not l.startswith("#")],
            "add_only": True,
        },
        "engines": [
            {"name": "parser-monitors", "path": "harness/px", "serves_properties": [p for p in props if p in CHECKS and CHECKS[p][0] == "parser-monitors"],
             "kind_free_text": "generated programs and argv executed by the real Parse/Dispatch/Help/completion code in worker processes; monitors compare recorded outcomes with the intended-parse fold, local models and metamorphic partners"},
            {"name": "dag-monitors", "path": "harness/dagx", "serves_properties": [p for p in props if p in CHECKS and CHECKS[p][0] == "dag-monitors"],
             "kind_free_text": "controlled-schedule harness around the real dag.Graph.Run under the Go race detector; offline checkers over sequence-numbered event logs; idle-tick hook for logical-time deadlock verdicts"},
        ],
        "checks": checks,
        "not_applicable": na,
        "notes": "All checks: exit 0 = held on everything explored, exit 1 + VIOLATION line otherwise, exit 2 = could not build/run (inconclusive). VERIF_SEED selects the case list; case counts are fixed per tier.",
    }
    json.dump(m, open(os.path.join(V, "MANIFEST.json"), "w"), indent=1)
    print("checks:", len(checks), "not_applicable:", len(na))

main()
