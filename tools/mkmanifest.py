#!/usr/bin/env python3
"""Regenerates /verif/MANIFEST.json from the table below (kept valid at all times)."""
import json, os, sys
V = os.path.dirname(os.path.dirname(os.path.abspath(__file__)))
props = [json.loads(l)["id"] for l in open(os.path.join(V, "properties.jsonl"))]

BASE_OFF = ("cd /repo && export GOFLAGS=-mod=mod GOPROXY=off GOSUMDB=off GOTOOLCHAIN=local && "
            "for m in . ./internal/completion/test; do (cd $m && go test -json -vet=off -count=1 -timeout 25m ./...) ; done")

# id -> (engine, technique, level text, level note, design ref)
CHECKS = {
 "C03": ("parser-monitors",
         "runtime monitor over real Parse executions: token-conservation accounting against the intended-parse fold + subsequence monitor",
         "Every generated argv is parsed by the real library; a monitor checks that remaining is exactly the unconsumed tokens (order, multiplicity, bytes) and that every consumed token shows up in the option it was written for. Held on the executions listed in evidence; says nothing about argv shapes the generator does not render.",
         "Trusted: the spec->API builder, the fold over intended-parse items (appendix A), Go strconv as conversion oracle. argv only rendered where the documented rules are unambiguous.",
         "5 (C03), appendix A"),
}

def main():
    checks = []
    for pid in props:
        if pid not in CHECKS:
            continue
        eng, tech, text, note, ref = CHECKS[pid]
        checks.append({
            "property_id": pid,
            "quick_cmd": f"./check {pid} quick",
            "thorough_cmd": f"./check {pid} thorough",
            "evidence_file": f"/verif/evidence/{pid}.json",
            "replay_cmd_template": "./check replay {path}",
            "engine": eng,
            "level_claimed": {"category": "exploration", "text": text, "design_ref": "DESIGN.md section " + ref},
            "level_note": note,
            "technique": tech,
        })
    na = [{"property_id": p, "reason": "check not built yet (work in progress); the design in DESIGN.md applies runtime monitoring to it"} for p in props if p not in CHECKS]
    m = {
        "version": 1,
        "setup_cmd": "./setup.sh",
        "hooks": {
            "guard": "verif",
            "enable": "go build -tags verif (the harness module replaces github.com/DavidGamba/go-getoptions with /repo)",
            "baseline_off_cmd": BASE_OFF,
            "source_commits": [l.strip() for l in open(os.path.join(V, "MANIFEST.hooks")) if l.strip() and not l.startswith("#")],
            "add_only": True,
        },
        "engines": [
            {"name": "parser-monitors", "path": "harness/px", "serves_properties": [p for p in props if p in CHECKS and CHECKS[p][0] == "parser-monitors"],
             "kind_free_text": "generated programs and argv executed by the real Parse/Dispatch/Help/completion code in worker processes; monitors compare recorded outcomes with the intended-parse fold, local models and metamorphic partners"},
            {"name": "dag-monitors", "path": "harness/dagx", "serves_properties": [p for p in props if p in CHECKS and CHECKS[p][0] == "dag-monitors"],
             "kind_free_text": "controlled-schedule harness around the real dag.Graph.Run under the Go race detector; offline checkers over sequence-numbered event logs; idle-tick hook for logical-time deadlock verdicts"},
        ],
        "checks": checks,
        "not_applicable": na,
        "notes": "All checks: exit 0 = held on everything explored, exit 1 + VIOLATION line otherwise, exit 2 = could not build/run (inconclusive). VERIF_SEED selects the case list; case counts are fixed per tier.",
    }
    json.dump(m, open(os.path.join(V, "MANIFEST.json"), "w"), indent=1)
    print("checks:", len(checks), "not_applicable:", len(na))

main()
