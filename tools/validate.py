#!/opt/veriftools/pyvenv/bin/python
import json, jsonschema, glob, sys
ok = True
jsonschema.validate(json.load(open('/verif/MANIFEST.json')), json.load(open('/root/.vp/MANIFEST.schema.json')))
es = json.load(open('/root/.vp/EVIDENCE.schema.json'))
for f in sorted(glob.glob('/verif/evidence/*.json')):
    try:
        jsonschema.validate(json.load(open(f)), es)
    except Exception as e:
        ok = False
        print("INVALID", f, str(e).split('\n')[0][:200])
print("valid" if ok else "PROBLEMS")
sys.exit(0 if ok else 1)
