#!/bin/bash
# (isolated variant: private copies of /repo HEAD and of the committed harness, see try_patch_iso.sh)
# Re-runs every seeded change against the check of the property it breaks (plus extra checks given per seed in
# seeded/<id>/also.txt) and rewrites seeded/<id>/detect.txt. Usage: tools/seed_matrix.sh [ids...]
cd /verif
ids=("$@"); [ ${#ids[@]} -eq 0 ] && ids=($(ls seeded))
for id in "${ids[@]}"; do
  d=seeded/$id
  [ -f $d/patch.diff ] || continue
  [ -f $d/OBSOLETE ] && { echo "$id obsolete: $(cat $d/OBSOLETE)"; continue; }
  [ -f $d/NOT_DETECTED ] && echo "$id out of domain: $(cut -c1-100 $d/NOT_DETECTED)"
  prop=${id%%-*}
  checks="$prop"
  [ -f $d/also.txt ] && checks="$checks $(cat $d/also.txt)"
  : > $d/detect.txt
  for c in $checks; do tools/try_patch_iso.sh $d/patch.diff $c 2>&1 | sed "s/^patch.diff/$id/" | cut -c1-300 | tee -a $d/detect.txt; done
done
