#!/usr/bin/env python3
"""Writes seeded/TABLE.md: one line per seeded change / mutant with the checks that detect it (from detect.txt files)."""
import json, os, glob, re
V = '/verif'
rows = []
for d in sorted(glob.glob(V + '/seeded/*/')):
    sid = os.path.basename(d.rstrip('/'))
    meta = {}
    try: meta = json.load(open(d + 'meta.json', errors='replace'))
    except Exception: pass
    if os.path.exists(d + 'OBSOLETE'):
        rows.append((sid, (meta.get('summary') or '')[:140], 'obsolete: ' + open(d + 'OBSOLETE').read().strip()[:120]))
        continue
    det, miss = [], []
    if os.path.exists(d + 'detect.txt'):
        for l in open(d + 'detect.txt', errors='replace'):
            m = re.match(r'\S+ (C\d+) (DETECTED|missed)', l)
            if m: (det if m.group(2) == 'DETECTED' else miss).append(m.group(1))
    verdict = 'detected by ' + ', '.join(det) + ('; missed by ' + ', '.join(miss) if miss else '')
    if not det:
        verdict = 'not detected (' + ', '.join(miss) + ')'
    if os.path.exists(d + 'NOT_DETECTED'):
        verdict += ' - outside the domain: ' + open(d + 'NOT_DETECTED').read().strip()[:160]
    rows.append((sid, (meta.get('summary') or '').replace('\n', ' ')[:140], verdict))
with open(V + '/seeded/TABLE.md', 'w') as f:
    f.write('| seeded change | what it does | quick checks |\n|---|---|---|\n')
    for r in rows:
        f.write('| %s | %s | %s |\n' % r)
print(len(rows), 'rows')
