#!/usr/bin/env python3
"""tools/mut_summary.py <stage2.txt>  - writes mutants/ast-sweep.txt from the stage-2 result lines (STATUS|description|detail)
and the triage table below (one reason per group of surviving mutants, reviewed by hand)."""
import re, sys, collections
rows = [l.rstrip('\n').split('|') for l in open(sys.argv[1]) if l.strip()]
det = [r for r in rows if r[0] == 'DETECTED']; sur = [r for r in rows if r[0] == 'SURVIVED']; exc = [r for r in rows if r[0] == 'EXCLUDED']
loc = lambda d: d.replace('/repo/', '')
tri = [
 (r'^api\.go:(71|73|80|95):', 'debug dump `str()` of the program tree only'),
 (r'^api\.go:15[4-7]:', 'fields of the unknown-option record that nothing reads back (`Unknown`, `Verbatim`, copy of the arguments)'),
 (r'^api\.go:181:', 'nil argument list made empty: no observable difference (the remaining list is built separately)'),
 (r'^api\.go:229:', '`!= nil && len > 0`: redundant guard around a range loop'),
 (r'^api\.go:260:', 'first of two sorts of the completion list'),
 (r'^api\.go:268:41', 'ESCAPE, now detected: completion value hints added although several options match (`mutants/completion-hint-any-count.patch`); the C17 oracle accepted any `--k=text` as key k'),
 (r'^api\.go:268:7', 'redundant guard (`!= nil && len > 0`)'),
 (r'^api\.go:361:', 'candidate list is already sorted by the lookup function'),
 (r'^dag/dag\.go:146:', 'ESCAPE, now detected: `Task.Unlock` never unlocks (`mutants/dag-task-never-unlocked.patch`); the uncontrolled multi-graph runs had no bounded-progress rule (ended inconclusive)'),
 (r'^dag/dag\.go:200:', '`TickerDuration` default: set explicitly by the harness (and exercised with 0)'),
 (r'^dag/dag\.go:240:', 'ESCAPE, now detected: `SetOutputBuffer` does not switch buffering on; the output monitor was skipped when nothing reached the writer'),
 (r'^dag/dag\.go:242:', 're-initialisation of a zero mutex'),
 (r'^dag/dag\.go:(442|468|476|483):', '`continue` -> `break` inside the `select` that is the last statement of the loop body: same control flow'),
 (r'^dag/dag\.go:471:', 'skipped vertex re-announced until its completion is received: extra goroutines, no observable effect'),
 (r'^dag/dag\.go:(472|512|513|514):', 'log lines (not covered by any statement)'),
 (r'^dag/dag\.go:50[35]:', 'ESCAPE, now detected: buffered output never flushed (`mutants/dag-buffer-flush-skipped.patch`); same monitor gap as 240'),
 (r'^dag/dag\.go:530:', 'rounding in `durationStr` (log text)'),
 (r'^dag/dag\.go:577:', 'third return value unused when `allDone` is true'),
 (r'^dag/dag\.go:606:', '`visit` returns at once for a visited vertex'),
 (r'^internal/help/help\.go:(122|153|155|176|181|241):', 'column widths / wrapping boundary of the help layout (C18 is structural)'),
 (r'^internal/help/help\.go:236:', 'whether the ARGUMENTS section is printed for a single unnamed or undescribed synopsis argument'),
 (r'^internal/option/option\.go:(121|122|133|134|140|141|152|153|158|159|171|172|177|178):', 'default min/max of `option.New`: overwritten by the definition functions for multi-value kinds; for scalar kinds min=0 only changes what happens when the mandatory value is *absent* (no statement covers a missing scalar value), max is not read'),
 (r'^internal/option/option\.go:(128|147|166):', '`IsOptional` of optional-value kinds: only read in the minimum loop, which does not run for min=0'),
 (r'^internal/option/option\.go:202:', 'definition-time validation of max=0 (invalid definitions are outside the domain)'),
 (r'^internal/option/option\.go:381:', 'index returned by a helper whose callers only use the boolean'),
 (r'^internal/option/option\.go:(386|434|436):', 'log lines'),
 (r'^internal/option/option\.go:397:', 'valid-value list of length one no longer enforced: enforcement of valid values is not part of any statement (generated lists have >= 3 entries)'),
 (r'^internal/option/option\.go:448:', 'int range with equal bounds accepted: the statement defines a<b only'),
 (r'^internal/option/option\.go:(497|499):', '`len(a) > 0` where `len(a) >= 1` is already established'),
 (r'^internal/option/option\.go:511:', 'comparator `<` vs `<=` on unique names'),
 (r'^isoption\.go:(65|91):', '`len(match) > 0` on a regexp match that always has four groups'),
 (r'^user\.go:316:', 'negative limit of `regexp.Split`'),
 (r'^user\.go:326:', 'guards on the shape of the completion arguments that every shell invocation satisfies'),
 (r'^user\.go:(336|337|346):', 'log lines'),
 (r'^user\.go:370:', 'required options not checked in `Parse` when a help command exists: `Dispatch` checks them (the statement says "Parse or Dispatch")'),
 (r'^user\.go:385:', 'level walk continues above the node `Parse` was called on (that node is the root in every documented use)'),
 (r'^user\.go:438:', 'landing help for a function-less command whose only child is the help command (statement allows error or help)'),
 (r'^user_help\.go:143:', '`Level` field: never read'),
 (r'^user_help\.go:149:', 'synopsis argument `<topic>` of the help command itself'),
 (r'^user_options\.go:(318|415|482):', '`Synopsis()` recomputed again by every modifier that changes it'),
]
out = ["AST mutation sweep of the non-test sources (harness/cmd/mutgen: binary operator swaps, negated conditions, int literal",
       "shifts, true/false flips, break/continue swaps, deleted statements)\n",
       "stage 1 (tools/mut_stage1.sh): 1147 mutants compile; 1005 are killed by the pinned test suite; 142 pass it.",
       "stage 2 (tools/mut_stage2.sh, run on private copies): the quick tier of the checks relevant to the mutated file, harness as of",
       "commit 187d885 (before the monitor changes the sweep led to).",
       f"  detected {len(det)}, survived {len(sur)}, excluded {len(exc)} (the mutant deletes the verif hook call itself).\n"]
byreason, unt, esc = collections.OrderedDict(), [], 0
for r in sur:
    d = loc(r[1])
    for pat, why in tri:
        if re.search(pat, d):
            byreason.setdefault(why, []).append(d)
            esc += why.startswith('ESCAPE')
            break
    else:
        unt.append(d)
out.append(f"Survivors reviewed one by one: {esc} real escapes (all detected after the monitor changes listed in DESIGN section 12, each")
out.append(f"re-run against the current harness), {len(sur)-esc} equivalent or outside every statement.\n")
for why, ds in byreason.items():
    out.append(("* " if not why.startswith('ESCAPE') else "* !! ") + why)
    out += ["      " + d for d in ds]
if unt:
    out.append("\nUNTRIAGED:"); out += ["      " + d for d in unt]
out.append("\nDetected mutants (first violation message):")
out += ["  " + loc(r[1]) + "  ->  " + "|".join(r[2:])[:150] for r in det]
open('/verif/mutants/ast-sweep.txt', 'w').write("\n".join(out) + "\n")
print(len(det), len(sur), len(exc), esc, len(unt))
