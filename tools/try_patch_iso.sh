#!/bin/bash
# tools/try_patch_iso.sh <patch> <check> [<check>...]  - like try_patch.sh, but applies the patch to a private copy of /repo HEAD
# and runs the checks from a private copy of the committed harness (ISO, default /tmp/iso-try; refreshed when HEADs moved).
set -u
P="$(readlink -f "$1")"; shift
ISO=${ISO:-/tmp/iso-try}
export GOFLAGS=-mod=mod GOPROXY=off GOSUMDB=off GOTOOLCHAIN=local
rh=$(git -C /repo rev-parse HEAD); vh=$(git -C /verif rev-parse HEAD)
if [ ! -d "$ISO/repo" ]; then mkdir -p "$ISO"; git -C /repo worktree add -q --detach "$ISO/repo" HEAD || exit 2; fi
( cd "$ISO/repo" && git checkout -q -- . && git clean -fdq && git checkout -q --detach "$rh" )
if [ "$(cat "$ISO/vc.head" 2>/dev/null)" != "$vh" ]; then
  rm -rf "$ISO/vc"; mkdir -p "$ISO/vc"
  git -C /verif archive HEAD | tar -x -C "$ISO/vc"
  sed -i "s#=> /repo#=> $ISO/repo#" "$ISO/vc/harness/go.mod"
  echo "$vh" > "$ISO/vc.head"
fi
( cd "$ISO/repo" && { git apply "$P" 2>/dev/null || patch -p1 -s --fuzz=3 --no-backup-if-mismatch < "$P"; } ) || { echo "patch does not apply: $P"; ( cd "$ISO/repo" && git checkout -q -- . && git clean -fdq ); exit 2; }
for c in "$@"; do
  out=$(cd "$ISO/vc" && VERIF_NO_EVIDENCE=1 ./check "$c" "${TIER:-quick}" 2>&1); rc=$?
  if [ $rc -eq 1 ] && echo "$out" | grep -q "^VIOLATION property=$c"; then
    echo "$(basename "$P") $c DETECTED: $(echo "$out" | grep -m1 'violation:' | cut -c1-220)"
  else
    echo "$(basename "$P") $c missed (rc=$rc) $(echo "$out" | grep -m1 -E 'BUILD FAILED|inconclusive' | cut -c1-150)"
  fi
done
( cd "$ISO/repo" && git checkout -q -- . && git clean -fdq )
