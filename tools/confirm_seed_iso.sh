#!/bin/bash
# tools/confirm_seed_iso.sh <Cxx> <A|B> [checks...]
# Same as confirm_seed.sh, but never touches /repo's working tree: the checks run from a private copy of the committed
# harness (ISO/vc) whose go.mod points at a private copy of /repo HEAD (ISO/repo). For use while another job (vp run,
# evidence refresh) needs /repo unchanged. ISO defaults to /tmp/iso-seed and is created on first use; remove it when done.
set -u
ID="$1"; X="$2"; shift 2
SRC=${SEEDROOT:-/tmp/seed}/$ID-out
TAG=${SEEDTAG:-}
ISO=${ISO:-/tmp/iso-seed}
[ -f "$SRC/$X.patch.diff" ] || { echo "no patch $SRC/$X.patch.diff"; exit 2; }
export GOFLAGS=-mod=mod GOPROXY=off GOSUMDB=off GOTOOLCHAIN=local
if [ ! -d "$ISO/vc" ]; then
  mkdir -p "$ISO"
  git -C /repo worktree add -q --detach "$ISO/repo" HEAD || exit 2
  mkdir -p "$ISO/vc"
  git -C /verif archive HEAD | tar -x -C "$ISO/vc"
  sed -i "s#=> /repo#=> $ISO/repo#" "$ISO/vc/harness/go.mod"
fi
R="$ISO/repo"
( cd "$R" && git checkout -q -- . && git clean -fdq && git checkout -q --detach "$(git -C /repo rev-parse HEAD)" )
vh=$(git -C /verif rev-parse HEAD)
if [ "$(cat "$ISO/vc.head" 2>/dev/null)" != "$vh" ]; then
  rm -rf "$ISO/vc"; mkdir -p "$ISO/vc"
  git -C /verif archive HEAD | tar -x -C "$ISO/vc"
  sed -i "s#=> /repo#=> $ISO/repo#" "$ISO/vc/harness/go.mod"
  echo "$vh" > "$ISO/vc.head"
fi
DEMO=$(ls $SRC/${X}_demo*.go 2>/dev/null | head -1)
[ -n "$DEMO" ] || { echo "no demo"; exit 2; }
pkg=$(grep -m1 '^package ' "$DEMO" | awk '{print $2}')
case "$pkg" in
  dag|dag_test) dest="$R/dag/zz_seed_demo_test.go"; run="./dag";;
  main) echo "main-program demo: confirm manually"; exit 3;;
  option|option_test) dest="$R/internal/option/zz_seed_demo_test.go"; run="./internal/option";;
  help|help_test) dest="$R/internal/help/zz_seed_demo_test.go"; run="./internal/help";;
  *) dest="$R/zz_seed_demo_test.go"; run=".";;
esac
L=$ISO/confirm-$ID-$TAG$X
cp "$DEMO" "$dest"
tname=$(grep -o 'func Test[A-Za-z0-9_]*' "$dest" | awk '{print $2}' | paste -sd'|')
( cd "$R" && go test -tags verif -vet=off -count=1 -run "^($tname)\$" $run ) > $L.clean.log 2>&1; rc_clean=$?
( cd "$R" && git apply "$SRC/$X.patch.diff" ) || { echo "$ID-$TAG$X: patch does not apply"; rm -f "$dest"; exit 2; }
( cd "$R" && go build ./... ) > $L.build.log 2>&1; rc_build=$?
( cd "$R" && go test -tags verif -vet=off -count=1 -run "^($tname)\$" $run ) > $L.patched.log 2>&1; rc_patched=$?
rm -f "$dest"
( cd "$R" && go test -vet=off -count=1 ./... ) > $L.suite.log 2>&1; rc_suite=$?
if [ $rc_suite -ne 0 ]; then ( cd "$R" && go test -vet=off -count=1 ./... ) > $L.suite.log 2>&1; rc_suite=$?; fi   # dag tests are timing-sensitive on a loaded machine: one retry
echo "$ID-$TAG$X: demo clean rc=$rc_clean  build rc=$rc_build  demo patched rc=$rc_patched  suite patched rc=$rc_suite"
if [ $rc_clean -ne 0 ] || [ $rc_build -ne 0 ] || [ $rc_patched -eq 0 ] || [ $rc_suite -ne 0 ]; then
  echo "$ID-$TAG$X: NOT CONFIRMED (see $L.*.log)"; ( cd "$R" && git checkout -q -- . && git clean -fdq ); exit 1
fi
D=/verif/seeded/$ID-$TAG$X
mkdir -p "$D"
cp "$SRC/$X.patch.diff" "$D/patch.diff"
cp "$DEMO" "$D/$(basename "$DEMO")"
checks=("$@"); [ ${#checks[@]} -eq 0 ] && checks=("$ID")
: > "$D/detect.txt"
for c in "${checks[@]}"; do
  out=$(cd "$ISO/vc" && VERIF_NO_EVIDENCE=1 ./check "$c" "${TIER:-quick}" 2>&1); rc=$?
  if [ $rc -eq 1 ] && echo "$out" | grep -q "^VIOLATION property=$c"; then
    echo "patch.diff $c DETECTED: $(echo "$out" | grep -m1 'violation:' | cut -c1-220)"
  else
    echo "patch.diff $c missed (rc=$rc) $(echo "$out" | grep -m1 -E 'BUILD FAILED|inconclusive' | cut -c1-150)"
  fi | cut -c1-400 | tee -a "$D/detect.txt"
done
( cd "$R" && git checkout -q -- . && git clean -fdq )
/opt/veriftools/pyvenv/bin/python - "$ID" "$X" "$SRC" "$D" "$tname" "$run" <<'PY'
import json,sys
ID,X,SRC,D,tname,run=sys.argv[1:]
try: meta=json.load(open(f"{SRC}/{X}.meta.json"))
except Exception as e: meta={"note":"agent meta unreadable: %s"%e}
det=[l.strip() for l in open(f"{D}/detect.txt", errors='replace') if l.strip()]
out={"breaks_property":ID,"source":"independent sub-agent given only the property text and a scratch worktree",
 "summary":meta.get("summary"),"needs_to_manifest":meta.get("needs_to_manifest"),"why_existing_tests_pass":meta.get("why_tests_pass"),
 "confirmed":{"how":"scratch worktree of /repo HEAD: demo test passes on the clean tree; with patch.diff applied `go build ./...` ok, the full existing suite (go test -vet=off -count=1 ./...) passes and the demo fails",
              "demo_cmd":f"copy the demo into the package directory, go test -vet=off -count=1 -run '^({tname})$' {run}"},
 "checks_run":det}
json.dump(out,open(f"{D}/meta.json","w"),indent=1)
PY
rm -f $L.*.log
