#!/bin/bash
# tools/try_patch.sh <patch> <check> [<check>...]  - applies a patch to /repo, runs the quick checks, restores /repo.
# prints one line per check: <patch> <check> DETECTED|missed
set -u
P="$(readlink -f "$1")"; shift
cd /repo || exit 2
if ! git diff --quiet; then echo "/repo has uncommitted changes"; exit 2; fi
{ git apply "$P" 2>/dev/null || patch -p1 -s --fuzz=3 --no-backup-if-mismatch < "$P"; } || { echo "patch does not apply: $P"; git checkout -q -- .; git clean -fdq; exit 2; }
trap 'git -C /repo checkout -- . ; git -C /repo clean -fdq' EXIT
for c in "$@"; do
  out=$(cd /verif && VERIF_NO_EVIDENCE=1 ./check "$c" "${TIER:-quick}" 2>&1); rc=$?
  if [ $rc -eq 1 ] && echo "$out" | grep -q "^VIOLATION property=$c"; then
    echo "$(basename "$P") $c DETECTED: $(echo "$out" | grep -m1 'violation:' | cut -c1-220)"
  else
    echo "$(basename "$P") $c missed (rc=$rc) $(echo "$out" | grep -m1 -E 'BUILD FAILED|inconclusive' | cut -c1-150)"
  fi
done
