#!/bin/bash
# tools/finalize.sh  - refreshes the committed evidence from /verif against /repo itself: every quick check once (evidence written),
# MANIFEST regenerated, manifest + evidence validated, seeded/TABLE.md regenerated. Prints a summary; commits nothing.
cd "$(dirname "$0")/.."
fail=0
for c in $(seq -f 'C%02g' 1 20); do
  out=$(./check $c quick 2>&1); rc=$?
  echo "$c rc=$rc :: $(echo "$out" | grep -E "^$c quick" | cut -c1-160)"
  if [ $rc -ne 0 ] || echo "$out" | grep -q "^VIOLATION"; then fail=1; echo "$out" | grep -E "VIOLATION|violation:|inconclusive" | head -5 | cut -c1-300; fi
done
python3 tools/mkmanifest.py > /dev/null
/opt/veriftools/pyvenv/bin/python tools/validate.py | tail -2
python3 tools/seed_table.py
echo "finalize: fail=$fail"
exit $fail
