#!/bin/bash
# stage 2 of the mutation sweep: run the quick checks against every survivor (mutated file copied into /repo, restored afterwards)
# usage: mut_stage2.sh <survivors.txt> <outfile>
cd /verif
SURV="$1"; OUT="$2"; : > "$OUT"
restore() { git -C /repo checkout -- . ; }
trap restore EXIT
if ! git -C /repo diff --quiet; then echo "/repo dirty"; exit 2; fi
while IFS='|' read m f desc; do
  case "$f" in
    dag/dag.go) cs="C13 C14 C16 C15";;
    internal/help/help.go|user_help.go) cs="C18 C11 C20 C17 C10 C19";;
    *) cs="C03 C06 C10 C08 C01 C02 C04 C05 C07 C09 C11 C12 C17 C18 C20 C19";;
  esac
  cp "$m" /repo/$f
  hit=""
  for c in $cs; do
    out=$(VERIF_NO_EVIDENCE=1 timeout 900 ./check $c quick 2>&1); rc=$?
    if [ $rc -eq 1 ] && echo "$out" | grep -q "^VIOLATION property=$c"; then hit="$c: $(echo "$out" | grep -m1 'violation:' | cut -c1-160)"; break; fi
    if [ $rc -eq 2 ]; then hit="BUILD-FAIL $c"; break; fi
  done
  git -C /repo checkout -- "$f"
  if [ -n "$hit" ]; then echo "DETECTED|$desc|$hit" >> "$OUT"; else echo "SURVIVED|$desc|$m" >> "$OUT"; fi
done < "$SURV"
grep -c DETECTED "$OUT"; grep -c SURVIVED "$OUT"
