#!/bin/bash
# stage 2 of the mutation sweep: run the quick checks relevant to the mutated file against every mutant that passes the pinned
# suite. Works on private copies (ISO, default /tmp/iso-mut): a plain copy of /repo HEAD and a copy of the committed harness whose
# go.mod points at it, so /repo itself is never modified. Resumable: descriptions already present in <outfile> are skipped.
# usage: mut_stage2.sh <survivors.txt> <outfile>      (lines of survivors.txt: <mutant file>|<relative path>|<description>)
SURV="$1"; OUT="$2"
ISO=${ISO:-/tmp/iso-mut}
export GOFLAGS=-mod=mod GOPROXY=off GOSUMDB=off GOTOOLCHAIN=local
if [ ! -d "$ISO/vc" ]; then
  mkdir -p "$ISO/repo" "$ISO/vc"
  git -C /repo archive HEAD | tar -x -C "$ISO/repo"
  git -C /verif archive HEAD | tar -x -C "$ISO/vc"
  sed -i "s#=> /repo#=> $ISO/repo#" "$ISO/vc/harness/go.mod"
fi
R="$ISO/repo"
cd "$ISO/vc" || exit 2
while IFS='|' read m f desc; do
  grep -qF "|$desc|" "$OUT" 2>/dev/null && continue
  case "$desc" in *verifIdle*) echo "EXCLUDED|$desc|mutates the verif hook call" >> "$OUT"; continue;; esac
  case "$f" in
    dag/dag.go) cs="C13 C14 C16 C15";;
    internal/help/help.go|user_help.go) cs="C18 C11 C20 C17";;
    internal/option/option.go) cs="C01 C02 C12 C06 C18 C17 C20";;
    isoption.go) cs="C07 C03 C01 C19";;
    user_options.go) cs="C06 C12 C01 C02 C18 C17";;
    user.go) cs="C10 C11 C03 C08 C06 C20 C17";;
    *) cs="C03 C08 C09 C04 C05 C07 C02 C10 C17 C19 C01";;
  esac
  cp "$R/$f" "$ISO/orig.tmp"; cp "$m" "$R/$f"
  hit=""
  for c in $cs; do
    out=$(VERIF_NO_EVIDENCE=1 timeout 400 ./check $c quick 2>&1); rc=$?
    if [ $rc -eq 1 ] && echo "$out" | grep -q "^VIOLATION property=$c"; then hit="$c: $(echo "$out" | grep -m1 'violation:' | cut -c1-160)"; break; fi
    if [ $rc -eq 2 ]; then hit="BUILD-FAIL $c"; break; fi
    if [ $rc -eq 124 ]; then hit="TIMEOUT $c (check did not finish in 400 s: hang mutant)"; break; fi
  done
  cp "$ISO/orig.tmp" "$R/$f"
  if [ -n "$hit" ]; then echo "DETECTED|$desc|$hit" >> "$OUT"; else echo "SURVIVED|$desc|$m" >> "$OUT"; fi
done < "$SURV"
echo finished >> "$OUT.done"
