#!/bin/bash
# Builds the harness from files on disk only (offline) and warms the Go build cache (normal and -race builds).
set -e
cd "$(dirname "$0")"
export GOFLAGS=-mod=mod GOPROXY=off GOSUMDB=off GOTOOLCHAIN=local
mkdir -p .work/bin evidence replays
(cd harness && go build -tags verif -o ../.work/bin/vcheck ./cmd/vcheck)
(cd harness && go build -tags verif -race -o ../.work/bin/vcheck-race ./cmd/vcheck)
echo setup ok
