// Package fw - case framework shared by the parser and DAG engines:
// deterministic case lists, worker shards with on-disk journal, aggregation, evidence, replay files.
package fw

import (
	"encoding/json"
	"fmt"
	"hash/fnv"
	"os"
	"sort"
)

// Violation - one witness.
type Violation struct {
	Msg    string      `json:"msg"`
	Detail interface{} `json:"detail,omitempty"`
}

// Result of one case.
type Result struct {
	Sig          string         // signature used to count distinct non-trivial cases ("" = trivial)
	Cells        []string       // coverage cells touched
	Events       int            // events observed by the monitors in this case
	Execs        int            // executions of the real code in this case
	Viol         *Violation     // nil = held
	KnownKey     string         // when the violation matches a named witness predicate
	Sample       interface{}    // the case written out (kept for a few)
	Inconclusive string         // non-empty = neither held nor violated
	Counters     map[string]int // extra counters (summed)
	ExtraSigs    []string       // additional signatures (e.g. distinct interleavings), counted in their own set
}

// Check - one property's workload + oracle.
type Check struct {
	ID        string
	Rule      string // how cases are generated, what makes one non-trivial/distinct
	Technique string
	Race      bool // workers run from the -race build, race logs are scanned
	Cases     func(tier string) int
	Run       func(seed uint64, idx int, tier string) *Result
	// ExhaustivePart - which finite sub-space this check enumerates completely (evidence key exhaustive_part).
	ExhaustivePart string
	// Assumptions listed in evidence.
	Assumptions []string
	// Serial - run in a single worker (checks touching process-wide state heavily still run in worker processes).
	MaxWorkers int
	// WorkersPerCPU - >1 for latency-bound workloads (DAG runs wait for scheduler ticks)
	WorkersPerCPU int
	// MemLimitMB - address-space limit of a worker process (0 = none): an input that makes the library allocate without
	// bound ends the worker with a runtime-fatal error that the coordinator attributes to the journalled case.
	MemLimitMB int
	// PerCaseTimeoutS - watchdog for one case (0 = default 60s)
	PerCaseTimeoutS int
	// Post - optional extra work done by the coordinator after the workers (e.g. fuzzing); may add to the aggregate.
	Post func(c *CoordCtx, agg *Agg) error
	// ReplayDetail - replays a violation that is not a generated case (idx -2), from the detail stored in the replay file.
	ReplayDetail func(detail json.RawMessage) *Result
}

var Registry = map[string]*Check{}

func Register(c *Check) { Registry[c.ID] = c }

// Hash64 of a signature.
func Hash64(s string) uint64 {
	h := fnv.New64a()
	h.Write([]byte(s))
	return h.Sum64()
}

// ViolRec - violation as recorded by a worker.
type ViolRec struct {
	Idx      int         `json:"idx"`
	Msg      string      `json:"msg"`
	Detail   interface{} `json:"detail,omitempty"`
	KnownKey string      `json:"known_key,omitempty"`
	Sample   interface{} `json:"case,omitempty"`
}

// Agg - aggregate of a shard or of the whole run.
type Agg struct {
	Evaluations  int            `json:"evaluations"`
	Execs        int            `json:"execs"`
	Events       int            `json:"events"`
	Sigs         []uint64       `json:"sigs"`
	ExtraSigs    []uint64       `json:"extra_sigs"`
	Cells        map[string]int `json:"cells"`
	Counters     map[string]int `json:"counters"`
	Violations   []ViolRec      `json:"violations"`
	NViolations  int            `json:"n_violations"`
	Samples      []interface{}  `json:"samples"`
	Inconclusive []string       `json:"inconclusive"`
	Panics       int            `json:"panics"`
	sigSet       map[uint64]struct{}
	extraSet     map[uint64]struct{}
}

func NewAgg() *Agg {
	return &Agg{Cells: map[string]int{}, Counters: map[string]int{}, sigSet: map[uint64]struct{}{}, extraSet: map[uint64]struct{}{}}
}

const maxViolKept = 25
const maxSamples = 4

// Add one case result.
func (a *Agg) Add(idx int, r *Result) {
	a.Evaluations++
	a.Execs += r.Execs
	a.Events += r.Events
	if r.Sig != "" {
		a.sigSet[Hash64(r.Sig)] = struct{}{}
	}
	for _, s := range r.ExtraSigs {
		a.extraSet[Hash64(s)] = struct{}{}
	}
	for _, c := range r.Cells {
		a.Cells[c]++
	}
	for k, v := range r.Counters {
		a.Counters[k] += v
	}
	if r.Inconclusive != "" {
		a.Inconclusive = append(a.Inconclusive, fmt.Sprintf("case %d: %s", idx, r.Inconclusive))
	}
	if r.Viol != nil {
		a.NViolations++
		if len(a.Violations) < maxViolKept {
			a.Violations = append(a.Violations, ViolRec{Idx: idx, Msg: r.Viol.Msg, Detail: r.Viol.Detail, KnownKey: r.KnownKey, Sample: r.Sample})
		}
	}
	if r.Sample != nil && len(a.Samples) < maxSamples && r.Sig != "" && r.Viol == nil {
		a.Samples = append(a.Samples, r.Sample)
	}
}

// Seal - move sets into slices for serialisation.
func (a *Agg) Seal() {
	a.Sigs = a.Sigs[:0]
	for h := range a.sigSet {
		a.Sigs = append(a.Sigs, h)
	}
	a.ExtraSigs = a.ExtraSigs[:0]
	for h := range a.extraSet {
		a.ExtraSigs = append(a.ExtraSigs, h)
	}
}

// Merge another (sealed) aggregate into a.
func (a *Agg) Merge(b *Agg) {
	a.Evaluations += b.Evaluations
	a.Execs += b.Execs
	a.Events += b.Events
	for _, h := range b.Sigs {
		a.sigSet[h] = struct{}{}
	}
	for _, h := range b.ExtraSigs {
		a.extraSet[h] = struct{}{}
	}
	for k, v := range b.Cells {
		a.Cells[k] += v
	}
	for k, v := range b.Counters {
		a.Counters[k] += v
	}
	a.NViolations += b.NViolations
	for _, v := range b.Violations {
		if len(a.Violations) < maxViolKept {
			a.Violations = append(a.Violations, v)
		}
	}
	for _, s := range b.Samples {
		if len(a.Samples) < maxSamples {
			a.Samples = append(a.Samples, s)
		}
	}
	a.Inconclusive = append(a.Inconclusive, b.Inconclusive...)
	a.Panics += b.Panics
}

func (a *Agg) Distinct() int      { return len(a.sigSet) }
func (a *Agg) DistinctExtra() int { return len(a.extraSet) }

// CoordCtx - what Post hooks get.
type CoordCtx struct {
	VerifDir string
	WorkDir  string
	Tier     string
	Seed     uint64
	BinPath  string
	Logf     func(format string, args ...interface{})
}

// WriteJSON helper.
func WriteJSON(path string, v interface{}) error {
	b, err := json.MarshalIndent(v, "", " ")
	if err != nil {
		return err
	}
	return os.WriteFile(path, b, 0o644)
}

// SortedCells - stable listing of a cell histogram.
func SortedCells(m map[string]int) []string {
	ks := make([]string, 0, len(m))
	for k := range m {
		ks = append(ks, k)
	}
	sort.Strings(ks)
	return ks
}
