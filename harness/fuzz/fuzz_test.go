//go:build verif

// Native fuzz targets (C19): coverage-guided workload generator; the deciding step is the runtime
// observation inside px.ExecFuzz (panic, error contract, exit path).
package fuzz

import (
	"testing"

	"verif/px"
)

func seeds(f *testing.F, entries []int) {
	for spec := 0; spec < len(px.FuzzMenu()); spec++ {
		for _, e := range entries {
			for _, toks := range [][]string{{}, {"--"}, {"-"}, {"--a=b", "c"}, {"cmd", "-abc", "--x", "1..3"}, {"help", "x"}, {"--é", "v"}, {"--a=\n"}} {
				f.Add(px.EncodeFuzz(&px.FuzzCase{Spec: spec, Entry: e, Tokens: toks}))
			}
		}
	}
	// option names of the menu programs, so that the mutator starts from known keys
	for spec, p := range px.FuzzMenu() {
		t := px.Resolve(p)
		var toks []string
		for _, k := range t.Root.SortedKeys() {
			toks = append(toks, "--"+k, "-"+k, "--"+k+"=1")
		}
		for name := range t.Root.Children {
			toks = append(toks, name)
		}
		for _, e := range entries {
			f.Add(px.EncodeFuzz(&px.FuzzCase{Spec: spec, Entry: e, Tokens: toks}))
		}
	}
}

func FuzzParseDispatch(f *testing.F) {
	seeds(f, []int{0, 1, 2, 5, 6})
	f.Fuzz(func(t *testing.T, data []byte) {
		if len(data) > 1 {
			data[1] = []byte{0, 1, 2, 5, 6}[int(data[1])%5]
		}
		if v := px.ExecFuzzBytes(data); v != "" {
			t.Fatal(v)
		}
	})
}

func FuzzCompletion(f *testing.F) {
	seeds(f, []int{3, 4})
	f.Fuzz(func(t *testing.T, data []byte) {
		if len(data) > 1 {
			data[1] = []byte{3, 4}[int(data[1])%2]
		}
		if v := px.ExecFuzzBytes(data); v != "" {
			t.Fatal(v)
		}
	})
}
