package px

// Rng - splitmix64; the case list is a pure function of (seed, tier, index).
type Rng struct{ s uint64 }

func NewRng(seed uint64) *Rng { return &Rng{s: seed} }

// CaseRng - independent stream for case idx of a check.
func CaseRng(seed uint64, check string, idx int) *Rng {
	h := seed*0x9E3779B97F4A7C15 + 0x1234567
	for _, c := range []byte(check) {
		h = (h ^ uint64(c)) * 0x100000001B3
	}
	h ^= uint64(idx) * 0xD6E8FEB86659FD93
	r := &Rng{s: h}
	r.U64()
	r.U64()
	return r
}

func (r *Rng) U64() uint64 {
	r.s += 0x9E3779B97F4A7C15
	z := r.s
	z = (z ^ (z >> 30)) * 0xBF58476D1CE4E5B9
	z = (z ^ (z >> 27)) * 0x94D049BB133111EB
	return z ^ (z >> 31)
}

// Peek - a value derived from the current state and a salt; the stream is not advanced (side decisions added to a
// generator later do not shift what the existing draws produce).
func (r *Rng) Peek(salt uint64) uint64 {
	z := r.s ^ (salt * 0xD6E8FEB86659FD93)
	z = (z ^ (z >> 30)) * 0xBF58476D1CE4E5B9
	z = (z ^ (z >> 27)) * 0x94D049BB133111EB
	return z ^ (z >> 31)
}

// Intn - uniform in [0,n).
func (r *Rng) Intn(n int) int {
	if n <= 0 {
		return 0
	}
	return int(r.U64() % uint64(n))
}

// Range - uniform in [lo,hi].
func (r *Rng) Range(lo, hi int) int { return lo + r.Intn(hi-lo+1) }

func (r *Rng) Bool() bool { return r.U64()&1 == 1 }

// Chance - true with probability num/den.
func (r *Rng) Chance(num, den int) bool { return r.Intn(den) < num }

func (r *Rng) Pick(s []string) string { return s[r.Intn(len(s))] }

// Weighted - index chosen with the given weights.
func (r *Rng) Weighted(w []int) int {
	t := 0
	for _, x := range w {
		t += x
	}
	if t == 0 {
		return 0
	}
	n := r.Intn(t)
	for i, x := range w {
		if n < x {
			return i
		}
		n -= x
	}
	return len(w) - 1
}

func (r *Rng) Shuffle(n int, swap func(i, j int)) {
	for i := n - 1; i > 0; i-- {
		j := r.Intn(i + 1)
		swap(i, j)
	}
}
