package px

import (
	"strconv"
	"strings"
)

// ScenCfg - knobs of the scenario generator.
type ScenCfg struct {
	MaxItems    int
	WPos        int // weights
	WOpt        int
	WCmd        int
	WUnk        int
	WBundleUnk  int
	TermPct     int // percent of scenarios that end with `--` + tail
	Abbrev      bool
	HostileVals bool // attached values from the hostile pool
	BadVals     int  // percent of valued items that get an ill-typed value (error expected)
	HelpFlag    bool // the help flag may be used like any other flag
	Bundle      bool // merge adjacent short flags in Bundling mode
	EmptyPos    bool // "" as positional
	Ranges      bool // int ranges where accepted
	MaxTail     int
	NoNewline   bool // keep newlines out of attached values
	CmdAsValue  bool // command names used as string option values
	// Inject - when set, called once at item index InjectAt (or as the last item when the list is shorter)
	// to produce a property-specific item in context.
	Inject     func(g *ScenGen, prev *Item) *Item
	InjectAt   int
	MinItems   int
	NoStopTail bool
	ClosedOnly bool // option occurrences are always closed (optional-value options get a value, multi-value options their max)
}

func DefaultScen() ScenCfg {
	return ScenCfg{MaxItems: 7, WPos: 3, WOpt: 6, WCmd: 2, WUnk: 0, WBundleUnk: 0, TermPct: 25, Abbrev: true,
		HostileVals: true, Bundle: true, EmptyPos: true, Ranges: true, MaxTail: 4}
}

// HostileAttached - non-empty value texts that must survive `--name=v` verbatim.
var HostileAttached = []string{
	"-", "--", "---", "-x", "--x", "--x=y", "=", "==", "=a", "a=", "a=b", "a=b=c", " ", "  ", " a", "a ", "a b", "\t", "a\tb",
	"\n", "a\nb", "\na", "a\n", "a\r\nb", "\r", "é", "ß", "日本語", "😀", "\xff", "\xc3", "a\xffb", "'", "\"", "\\", "$x", "*",
	"true", "false", "0", "-0", "+5", "-5", "0x10", "1_000", "1e3", ".5", "5.", "NaN", "Inf", "-Inf", "1..3", "a,b", "a:b", "/x", "٣",
	":8080", "::1", ":k=v", ":", "-=x", "-=",
}

// HostilePlain - texts usable as detached value / positional (do not start with a dash).
var HostilePlain = []string{
	" ", "a b", "a=b", "=a", "a=", "=", "\n", "a\nb", "\t", "é", "ß", "日本語", "😀", "\xff", "a\xffb", "'", "\"", "\\",
	"true", "false", "0", "+5", "0x10", "1e3", ".5", "NaN", "a-b", "a--b", "/x", "٣", "a..b", "a,b",
	"-=", "-=x", "-=-x", "-=a=b", ":8080",
	" -x", " --x", "\t-1", " --", " -", "\t--x=1", // blanks in front of a dash: text, not options
}

// ScenGen - generation context handed to Inject hooks.
type ScenGen = scenGen

type scenGen struct {
	r    *Rng
	cfg  ScenCfg
	tree *Tree
	node *Node
	pay  *Payloads
	mode int
}

// prefixFor - a typed text for key k of option o at the node: k itself or a prefix resolving to exactly (k,o).
func (g *scenGen) typedFor(o *Opt, k string, singleRune bool) (string, bool) {
	if k == "-" {
		return k, !singleRune
	}
	if singleRune {
		fr := FirstRune(k)
		rk, ro, _ := g.node.ResolveKey(fr)
		if ro == o && rk == k {
			return fr, true
		}
		return "", false
	}
	if !g.cfg.Abbrev || g.r.Chance(1, 2) {
		return k, true
	}
	rs := Runes(k)
	n := g.r.Range(1, len(rs))
	p := strings.Join(rs[:n], "")
	rk, ro, _ := g.node.ResolveKey(p)
	if ro == o && rk == k {
		return p, true
	}
	return k, true
}

func (g *scenGen) usableOpts() []*Opt {
	var out []*Opt
	for _, o := range g.node.Visible {
		if o.ID < 0 && !g.cfg.HelpFlag {
			continue
		}
		out = append(out, o)
	}
	return out
}

// renderOpt - tokens for an option occurrence. vals may be empty (flag / bare optional).
func (g *scenGen) renderOpt(it *Item) {
	if it.Key == "-" {
		it.Tokens = []string{"-"}
		return
	}
	var head string
	vals := it.Vals
	switch {
	case !it.Short:
		head = "--" + it.Typed
		if it.Attached {
			head += "=" + vals[0]
			vals = vals[1:]
		}
	case g.mode == 2: // SingleDash: -xREST
		head = "-" + it.Typed
		if it.Attached {
			head += vals[0]
			vals = vals[1:]
		}
	default: // Normal, Bundling
		head = "-" + it.Typed
		if it.Repeat > 1 {
			head = "-" + strings.Repeat(it.Typed, it.Repeat)
		}
		if it.Attached {
			head += "=" + vals[0]
			vals = vals[1:]
		}
	}
	it.Tokens = append([]string{head}, vals...)
	if it.Repeat > 1 && !(it.Short && g.mode == 1) {
		// outside a bundle the repeated flag is written as that many separate tokens
		it.Tokens = nil
		for k := 0; k < it.Repeat; k++ {
			it.Tokens = append(it.Tokens, head)
		}
	}
}

func (g *scenGen) genValue(o *Opt, attached bool, bad bool) string {
	k := o.Kind
	if len(o.Valid) > 0 {
		if bad {
			return "notvalid"
		}
		return g.r.Pick(o.Valid)
	}
	if bad {
		switch {
		case k.IsInt():
			return g.r.Pick([]string{"1x", "x", "1.5", "0x10", "1_000", "9223372036854775808", "1e3", "٣", " 1"})
		case k.IsFloat():
			return g.r.Pick([]string{"1x", "x", "1.5.5", "1e999", "0x", "٣", " 1"})
		case k == KMap:
			return g.r.Pick([]string{"novalue", "x", "12"})
		}
	}
	if k.IsStr() && g.cfg.CmdAsValue && g.r.Chance(1, 3) {
		if cs := g.childCmds(); len(cs) > 0 {
			return g.r.Pick(cs)
		}
	}
	if k.IsStr() && g.cfg.HostileVals && g.r.Chance(1, 3) {
		if attached {
			for i := 0; i < 5; i++ {
				v := g.r.Pick(HostileAttached)
				if g.cfg.NoNewline && strings.ContainsAny(v, "\n\r") {
					continue
				}
				return v
			}
		} else {
			return g.r.Pick(HostilePlain)
		}
	}
	if k == KMap && g.cfg.HostileVals && g.r.Chance(1, 4) {
		n := strconv.Itoa(g.pay.next())
		return g.r.Pick([]string{"K" + n + "=a=b", "K" + n + "==", "K" + n + "=", "K" + n + "=a b", "K" + n + "=-x", "Kx" + n + "=é", "=x" + n, "=" + n + "=y"})
	}
	return g.pay.ValueFor(k)
}

func (g *scenGen) genOptItem(prevOpen *Item) *Item {
	opts := g.usableOpts()
	if len(opts) == 0 {
		return nil
	}
	o := opts[g.r.Intn(len(opts))]
	return g.Occurrence(o)
}

// Occurrence - one well-formed occurrence of option o at the current level (random key, abbreviation, spelling, value).
func (g *scenGen) Occurrence(o *Opt) *Item {
	keys := o.Keys()
	key := keys[g.r.Intn(len(keys))]
	it := &Item{Opt: o, OptID: o.ID, Key: key, Level: g.node.Path}
	if key == "-" {
		it.K = IFlag
		it.Typed = "-"
		g.renderOpt(it)
		return it
	}
	// spelling
	short := false
	switch g.mode {
	case 0:
		short = g.r.Chance(1, 3)
	case 1, 2:
		short = g.r.Chance(1, 2)
	}
	single := short && g.mode != 0
	typed, ok := g.typedFor(o, key, single)
	if !ok {
		short, single = false, false
		typed, _ = g.typedFor(o, key, false)
	}
	it.Typed, it.Short = typed, short
	switch {
	case o.Kind.IsFlag():
		it.K = IFlag
		if g.mode == 1 && short && single && g.r.Chance(1, 12) {
			it.Repeat = g.r.Range(15, 40) // a long bundle of one declared flag letter
		}
	case o.Kind.IsScalar(), o.Kind.IsOptional():
		if o.Kind.IsOptional() && !g.cfg.ClosedOnly && g.r.Chance(1, 3) {
			it.K = IOptBare
			it.Open = true
			break
		}
		it.K = IValued
		it.Attached = g.r.Bool()
		bad := g.cfg.BadVals > 0 && g.r.Intn(100) < g.cfg.BadVals
		it.Vals = []string{g.genValue(o, it.Attached, bad)}
		if !it.Attached && it.Vals[0] == "" {
			it.Vals[0] = g.pay.ValueFor(o.Kind)
		}
	default: // multi
		it.K = IMulti
		it.Attached = g.r.Bool()
		n := g.r.Range(o.Min, o.Max)
		if g.cfg.ClosedOnly {
			n = o.Max
		}
		for i := 0; i < n; i++ {
			var v string
			if i == 0 && it.Attached {
				v = g.genValue(o, true, false)
			} else if len(o.Valid) > 0 {
				v = g.r.Pick(o.Valid)
			} else {
				v = g.pay.ValueFor(o.Kind)
				if o.Kind == KStrings && g.cfg.HostileVals && g.r.Chance(1, 4) {
					v = g.r.Pick(HostilePlain)
				}
				if o.Kind == KMap && g.cfg.HostileVals && g.r.Chance(1, 4) {
					v = g.genValue(o, false, false)
				}
			}
			if o.Kind == KInts && g.cfg.Ranges && (i < o.Min || (i == 0 && it.Attached)) && g.r.Chance(1, 5) {
				a := g.r.Range(-3, 20)
				v = strconv.Itoa(a) + ".." + strconv.Itoa(a+g.r.Range(1, 5))
				if !(i == 0 && it.Attached) && a < 0 {
					v = "1.." + strconv.Itoa(g.r.Range(2, 6))
				}
			}
			it.Vals = append(it.Vals, v)
		}
		it.Open = n < o.Max
	}
	g.renderOpt(it)
	return it
}

// unkOK - name resolves to nothing at the node.
func (g *scenGen) unkOK(name string) bool {
	k, _, amb := g.node.ResolveKey(name)
	return k == "" && amb == nil
}

func (g *scenGen) genUnk() *Item {
	it := &Item{K: IUnk, Level: g.node.Path}
	// the same spelling can be a known option at one level and unknown at another (below an UnsetOptions wrapper):
	// each occurrence is judged at the level it is given at
	if g.r.Chance(1, 3) {
		var cands []string
		for n := g.node.Parent; n != nil; n = n.Parent {
			for _, k := range n.SortedKeys() {
				if k != "-" && RuneCount(k) > 1 && g.unkOK(k) {
					cands = append(cands, k)
				}
			}
		}
		// ... or unknown here and declared by a command below (the later occurrence behind the command name is a known option)
		var below func(n *Node)
		below = func(n *Node) {
			names := make([]string, 0, len(n.Children))
			for name := range n.Children {
				names = append(names, name)
			}
			sortStrings(names)
			for _, name := range names {
				c := n.Children[name]
				if c.IsHelp {
					continue
				}
				for _, k := range c.SortedKeys() {
					if k != "-" && RuneCount(k) > 1 && g.unkOK(k) {
						cands = append(cands, k)
					}
				}
				below(c)
			}
		}
		below(g.node)
		if len(cands) > 0 {
			k := g.r.Pick(cands)
			tok := "--" + k
			if g.r.Chance(1, 3) {
				tok += "=" + g.pay.Str()
			}
			it.Tokens = []string{tok}
			it.UnkNames = []string{k}
			return it
		}
	}
	if g.r.Chance(1, 14) {
		// `no-` in front of (a prefix of) declared names: no declared option is called that
		var cands []string
		for _, k := range g.node.SortedKeys() {
			if k != "-" && RuneCount(k) >= 1 {
				rs := Runes(k)
				cands = append(cands, "no-"+strings.Join(rs[:g.r.Range(0, len(rs))], ""))
			}
		}
		if len(cands) > 0 {
			n := g.r.Pick(cands)
			if g.unkOK(n) {
				it.Tokens = []string{"--" + n}
				it.UnkNames = []string{n}
				return it
			}
		}
	}
	if g.r.Chance(1, 12) {
		// a declared name followed by `:text`: the colon is part of the name, no declared option is called that
		var cands []string
		for _, k := range g.node.SortedKeys() {
			if k != "-" && RuneCount(k) > 1 {
				cands = append(cands, k)
			}
		}
		if len(cands) > 0 {
			n := g.r.Pick(cands) + ":" + g.pay.Str()
			tok := "--" + n
			if g.r.Chance(1, 3) {
				tok += "=" + g.pay.Str()
			}
			it.Tokens = []string{tok}
			it.UnkNames = []string{n}
			return it
		}
	}
	for tries := 0; tries < 50; tries++ {
		long := g.r.Bool()
		withVal := g.r.Chance(1, 3)
		val := ""
		if withVal {
			val = g.pay.Str()
		}
		if long || g.mode == 0 {
			n := g.pay.UnkName(true)
			if !g.unkOK(n) {
				continue
			}
			dash := "--"
			if !long {
				dash = "-"
			}
			tok := dash + n
			if withVal {
				tok += "=" + val
			}
			it.Tokens = []string{tok}
			it.UnkNames = []string{n}
			if long && g.r.Chance(1, 10) {
				// a mistyped option with three or four dashes is option-looking too and never a declared name
				it.Tokens = []string{g.r.Pick([]string{"-", "--"}) + tok}
				it.UnkNames = []string{"\x00" + n}
			}
			return it
		}
		if g.mode == 1 { // bundle of unknown letters
			nl := g.r.Range(1, 3)
			var letters []string
			okAll := true
			for i := 0; i < nl; i++ {
				l := g.r.Pick(unkLetters)
				if !g.unkOK(l) {
					okAll = false
				}
				letters = append(letters, l)
			}
			if !okAll {
				continue
			}
			tok := "-" + strings.Join(letters, "")
			if withVal {
				tok += "=" + val
			}
			it.Tokens = []string{tok}
			it.UnkNames = letters
			return it
		}
		// SingleDash: -xREST
		l := g.r.Pick(unkLetters)
		if !g.unkOK(l) {
			continue
		}
		tok := "-" + l
		if withVal {
			tok += g.r.Pick([]string{val, "=" + val, "yz"})
		}
		it.Tokens = []string{tok}
		it.UnkNames = []string{l}
		return it
	}
	return nil
}

// genBundleUnk - Bundling only: known one-letter flags mixed with unknown letters in one token.
func (g *scenGen) genBundleUnk() *Item {
	if g.mode != 1 {
		return nil
	}
	var flagItems []*Item
	for _, o := range g.usableOpts() {
		if !o.Kind.IsFlag() {
			continue
		}
		for _, k := range o.Keys() {
			if k == "-" {
				continue
			}
			fr := FirstRune(k)
			rk, ro, _ := g.node.ResolveKey(fr)
			if ro == o && rk == k {
				flagItems = append(flagItems, &Item{K: IFlag, Opt: o, OptID: o.ID, Key: k, Typed: fr, Short: true, Level: g.node.Path})
			}
		}
	}
	// one-letter options that take a mandatory (detached) value: the value is the token after the bundle
	var valuedItems []*Item
	for _, o := range g.usableOpts() {
		if !o.Kind.IsScalar() || len(o.Valid) > 0 {
			continue
		}
		for _, k := range o.Keys() {
			fr := FirstRune(k)
			rk, ro, _ := g.node.ResolveKey(fr)
			if ro == o && rk == k {
				valuedItems = append(valuedItems, &Item{K: IValued, Opt: o, OptID: o.ID, Key: k, Typed: fr, Short: true, Level: g.node.Path})
			}
		}
	}
	if len(flagItems) == 0 && len(valuedItems) == 0 {
		return nil
	}
	it := &Item{K: IBundleUnk, Level: g.node.Path}
	nf := g.r.Range(1, 2)
	nu := g.r.Range(1, 2)
	type slot struct {
		flag *Item
		unk  string
	}
	var slots []slot
	if len(flagItems) == 0 {
		nf = 0
	}
	for i := 0; i < nf; i++ {
		slots = append(slots, slot{flag: flagItems[g.r.Intn(len(flagItems))]})
	}
	var valued *Item
	if len(valuedItems) > 0 && (nf == 0 || g.r.Chance(1, 3)) {
		c := *valuedItems[g.r.Intn(len(valuedItems))]
		valued = &c
		valued.Vals = []string{g.pay.ValueFor(valued.Opt.Kind)}
		slots = append(slots, slot{flag: valued})
	}
	for i := 0; i < nu; i++ {
		l := g.r.Pick(unkLetters)
		if !g.unkOK(l) {
			return nil
		}
		slots = append(slots, slot{unk: l})
	}
	g.r.Shuffle(len(slots), func(i, j int) { slots[i], slots[j] = slots[j], slots[i] })
	tok := "-"
	for _, s := range slots {
		if s.flag != nil {
			tok += s.flag.Typed
			it.Flags = append(it.Flags, s.flag)
		} else {
			tok += s.unk
			it.UnkNames = append(it.UnkNames, s.unk)
		}
	}
	it.Tokens = []string{tok}
	if valued != nil {
		it.Tokens = append(it.Tokens, valued.Vals[0])
	}
	return it
}

func (g *scenGen) childCmds() []string {
	var out []string
	for name, c := range g.node.Children {
		if c.IsHelp {
			continue
		}
		out = append(out, name)
	}
	sortStrings(out)
	return out
}

func sortStrings(s []string) {
	for i := 1; i < len(s); i++ {
		for j := i; j > 0 && s[j] < s[j-1]; j-- {
			s[j], s[j-1] = s[j-1], s[j]
		}
	}
}

func (g *scenGen) genPos(afterTypedMulti bool) *Item {
	it := &Item{K: IPos, Level: g.node.Path}
	t := g.pay.Pos()
	if !afterTypedMulti {
		if g.r.Chance(1, 5) {
			t = g.r.Pick(HostilePlain)
			if t == " --x" || t == " -x" {
				// a blank in front of the spelling of a declared option is still text
				if ks := g.node.SortedKeys(); len(ks) > 0 {
					if k := ks[len(t)%len(ks)]; k != "-" {
						t = t[:len(t)-1] + k
					}
				}
			}
		} else if g.cfg.EmptyPos && g.r.Chance(1, 12) {
			t = ""
		}
	}
	if pk := g.r.Peek(0x905); !afterTypedMulti && pk%12 == 0 {
		// a positional spelled exactly like an option of the level (its name or an alias, the help flag's included),
		// without any dash: text
		if ks := g.node.SortedKeys(); len(ks) > 0 {
			if k := ks[int((pk/12)%uint64(len(ks)))]; k != "-" && k != "" {
				t = k
			}
		}
	}
	if _, isCmd := g.node.Children[t]; isCmd {
		t = g.pay.Pos()
	}
	it.Tok = t
	it.Tokens = []string{t}
	return it
}

// HostileTail - raw tokens after a stop point: must never be interpreted.
func (g *scenGen) hostileTail(n int) []string {
	var out []string
	keys := g.tree.Root.SortedKeys()
	nodeKeys := g.node.SortedKeys()
	for i := 0; i < n; i++ {
		switch g.r.Intn(9) {
		case 0:
			out = append(out, "--")
		case 1:
			if len(nodeKeys) > 0 {
				k := g.r.Pick(nodeKeys)
				out = append(out, "--"+k)
				continue
			}
			out = append(out, "--zz")
		case 2:
			if len(keys) > 0 {
				k := g.r.Pick(keys)
				out = append(out, "-"+k+"=x")
				continue
			}
			out = append(out, "-z")
		case 3:
			cs := g.childCmds()
			if len(cs) > 0 {
				out = append(out, g.r.Pick(cs))
				continue
			}
			out = append(out, "help")
		case 4:
			out = append(out, "--"+g.pay.UnkName(true))
		case 5:
			out = append(out, g.r.Pick(HostileAttached))
		case 6:
			out = append(out, "-")
		case 7:
			if len(nodeKeys) > 0 {
				k := g.r.Pick(nodeKeys)
				out = append(out, "--"+FirstRune(k))
				continue
			}
			out = append(out, "")
		default:
			out = append(out, g.pay.Pos())
		}
	}
	return out
}

// GenScenario - samples an intended parse and renders it.
func GenScenario(r *Rng, p *Prog, cfg ScenCfg) *Scenario {
	tree := Resolve(p)
	g := &scenGen{r: r, cfg: cfg, tree: tree, node: tree.Root, pay: NewPayloads(r), mode: p.Mode}
	s := &Scenario{Prog: p}
	n := r.Range(cfg.MinItems, cfg.MaxItems)
	if cfg.Inject != nil && n <= cfg.InjectAt {
		n = cfg.InjectAt + 1
	}
	var prev *Item
	stopped := false
	for i := 0; i < n && !stopped; i++ {
		if cfg.Inject != nil && i == cfg.InjectAt {
			if it := cfg.Inject(g, prev); it != nil {
				s.Items = append(s.Items, it)
				prev = it
			}
			continue
		}
		w := []int{cfg.WPos, cfg.WOpt, cfg.WCmd, cfg.WUnk, cfg.WBundleUnk}
		open := prev != nil && prev.Open
		typedMulti := open && prev.K == IMulti && prev.Opt.Kind != KStrings
		if open && !typedMulti {
			w[0], w[2] = 0, 0
		}
		if len(g.childCmds()) == 0 {
			w[2] = 0
		}
		if g.mode != 1 || g.node.ReqOrder {
			w[4] = 0
		}
		var it *Item
		switch r.Weighted(w) {
		case 0:
			it = g.genPos(typedMulti)
			if g.node.ReqOrder {
				stopped = true
			}
		case 1:
			it = g.genOptItem(prev)
		case 2:
			cs := g.childCmds()
			c := g.r.Pick(cs)
			it = &Item{K: ICmd, Tok: c, Tokens: []string{c}, Level: g.node.Path}
			g.node = g.node.Children[c]
		case 3:
			it = g.genUnk()
			if it != nil && g.node.ReqOrder {
				stopped = true
			}
		case 4:
			it = g.genBundleUnk()
		}
		if it == nil {
			continue
		}
		s.Items = append(s.Items, it)
		prev = it
	}
	if cfg.Bundle && g.mode == 1 {
		s.Items = mergeBundles(r, s.Items)
	}
	if stopped {
		s.Tail = g.hostileTail(r.Range(0, cfg.MaxTail))
	} else if r.Intn(100) < cfg.TermPct {
		s.Term = true
		s.Tail = g.hostileTail(r.Range(0, cfg.MaxTail))
	}
	s.Assemble()
	return s
}

// mergeBundles - Bundling mode: adjacent short one-letter flags (and a final short one-letter option of any
// kind) at the same level are written as one token now and then. The items stay separate (the fold does not care).
func mergeBundles(r *Rng, items []*Item) []*Item {
	for i := 0; i+1 < len(items); i++ {
		a, b := items[i], items[i+1]
		if a.K != IFlag || !a.Short || a.Key == "-" || len(a.Tokens) != 1 || a.Level != b.Level {
			continue
		}
		if !b.Short || b.Key == "-" || len(b.Tokens) == 0 {
			continue
		}
		switch b.K {
		case IFlag, IValued, IOptBare, IMulti:
		default:
			continue
		}
		if !r.Chance(1, 2) {
			continue
		}
		// a's letters go in front of b's head token; a renders nothing
		b.Tokens = append([]string{"-" + strings.TrimPrefix(a.Tokens[0], "-") + strings.TrimPrefix(b.Tokens[0], "-")}, b.Tokens[1:]...)
		a.Tokens = nil
	}
	return items
}

// Exported accessors for Inject hooks.
func (g *scenGen) R() *Rng         { return g.r }
func (g *scenGen) Node() *Node     { return g.node }
func (g *scenGen) Pay() *Payloads  { return g.pay }
func (g *scenGen) Mode() int       { return g.mode }
func (g *scenGen) Render(it *Item) { g.renderOpt(it) }

// Descend - move the generation context into child command c.
func (g *scenGen) Descend(c string) *Item {
	it := &Item{K: ICmd, Tok: c, Tokens: []string{c}, Level: g.node.Path}
	g.node = g.node.Children[c]
	return it
}

// NewScenGen - context for hand-assembled scenarios.
func NewScenGen(r *Rng, t *Tree, cfg ScenCfg) *ScenGen {
	return &scenGen{r: r, cfg: cfg, tree: t, node: t.Root, pay: NewPayloads(r), mode: t.Prog.Mode}
}
