package px

import (
	"encoding/base64"
	"encoding/json"
	"fmt"
	"os"
	"os/exec"
	"path/filepath"
	"regexp"
	"strconv"
	"strings"
	"time"

	"verif/fw"
)

// C19 - no input makes the library panic or hang.

func c19Token(r *Rng, t *Tree) string {
	keys := t.Root.SortedKeys()
	key := "x"
	if len(keys) > 0 {
		key = r.Pick(keys)
	}
	switch r.Intn(16) {
	case 0:
		return r.Pick(HostileAttached)
	case 1:
		return r.Pick(c01Numerals)
	case 2:
		if r.Chance(1, 5) {
			return "--" + key + "=" + r.Pick([]string{"", "o", "os", "os=", "a", "d", "dyn", "s", "v"})
		}
		return "--" + key
	case 3:
		return "-" + key
	case 4:
		return "--" + key + "=" + r.Pick(HostileAttached)
	case 5:
		return "--" + key + "=" + r.Pick(c01Numerals)
	case 6:
		return "-" + key + r.Pick(HostileAttached)
	case 7:
		return "--" + FirstRune(key)
	case 8:
		var cs []string
		for n := range t.Root.Children {
			cs = append(cs, n)
		}
		sortStrings(cs)
		if len(cs) > 0 {
			return r.Pick(cs)
		}
		return "help"
	case 9:
		n := r.Range(1, 8)
		b := make([]byte, n)
		for i := range b {
			b[i] = byte(r.Range(1, 255))
		}
		return string(b)
	case 10:
		return r.Pick([]string{"", "-", "--", "---", "-=", "--=", "--=x", "-=x", "=", "/x", "-\n", "--\n", "- ", "-- "})
	case 11:
		if r.Chance(1, 4) { // small spans at the ends of the int range
			return r.Pick([]string{"9223372036854775805..9223372036854775807", "9223372036854775806..9223372036854775807", "-9223372036854775808..-9223372036854775806",
				"9223372036854775807..9223372036854775807", "-3..2", "9223372036854775800..9223372036854775806"})
		}
		a := r.Range(-5, 50)
		return fmt.Sprintf("%d..%d", a, a+r.Range(-3, 9000))
	case 12:
		if r.Chance(1, 4) {
			return "--" + key + "=" + r.Pick([]string{"9223372036854775805..9223372036854775807", "-9223372036854775808..-9223372036854775807", "9223372036854775806..9223372036854775807"})
		}
		return "--" + key + "=" + fmt.Sprintf("%d..%d", r.Range(0, 9), r.Range(0, 9999))
	case 13:
		return "k" + strconv.Itoa(r.Intn(99)) + "=" + r.Pick(HostileAttached)
	case 14:
		return "-" + strings.Repeat(FirstRune(key), r.Range(2, 40))
	}
	return "p" + strconv.Itoa(r.Intn(1000))
}

func c19Case(seed uint64, idx int) *FuzzCase {
	r := CaseRng(seed, "C19", idx)
	c := &FuzzCase{Spec: idx % len(fuzzMenu), Entry: (idx / len(fuzzMenu)) % len(fuzzEntries)}
	t := Resolve(fuzzMenu[c.Spec])
	switch {
	case idx%997 == 1: // one very long token
		n := 1 << 20
		switch r.Intn(5) {
		case 0:
			c.Tokens = []string{strings.Repeat("a", n)}
		case 1:
			c.Tokens = []string{"-" + strings.Repeat("a", 100000)}
		case 2:
			c.Tokens = []string{"--" + strings.Repeat("é", n/2)}
		case 3:
			keys := t.Root.SortedKeys()
			k := "x"
			if len(keys) > 0 {
				k = r.Pick(keys)
			}
			c.Tokens = []string{"--" + k + "=" + strings.Repeat("=v\n", n/3)}
		default:
			c.Tokens = []string{"-" + strings.Repeat("xyz", 30000) + "=1"}
		}
	case idx%997 == 2: // very many tokens
		n := 100000
		c.Tokens = make([]string, n)
		for i := range c.Tokens {
			c.Tokens[i] = []string{"p", "-", "--zz", "-q", "1"}[i%5]
		}
		if r.Bool() {
			c.Tokens[n/2] = "--"
		}
	default:
		n := r.Weighted([]int{1, 3, 4, 4, 3, 2, 2, 1, 1})
		for i := 0; i < n; i++ {
			c.Tokens = append(c.Tokens, c19Token(r, t))
		}
	}
	if strings.HasPrefix(fuzzEntries[c.Entry], "completion") {
		// COMP_LINE is one string: whitespace inside tokens only changes the split, which is fine
		if len(c.Tokens) > 2000 {
			c.Tokens = c.Tokens[:2000]
		}
	}
	return c
}

var failingInputRe = regexp.MustCompile(`Failing input written to (\S+)`)

// readGoFuzzFile - parses a `go test fuzz v1` corpus file with a single []byte argument.
func readGoFuzzFile(path string) ([]byte, error) {
	b, err := os.ReadFile(path)
	if err != nil {
		return nil, err
	}
	lines := strings.Split(strings.TrimSpace(string(b)), "\n")
	if len(lines) < 2 {
		return nil, fmt.Errorf("unexpected corpus file format")
	}
	l := strings.TrimSpace(lines[1])
	l = strings.TrimSuffix(strings.TrimPrefix(l, "[]byte("), ")")
	s, err := strconv.Unquote(l)
	if err != nil {
		return nil, err
	}
	return []byte(s), nil
}

func init() {
	fw.Register(&fw.Check{
		ID:        "C19",
		Technique: "runtime monitoring: recover()-based panic monitor + error-contract monitor + exit-path monitor around every call, on-disk journal written before each case so that runtime-fatal crashes and stalls are attributable, bounded-progress watchdog; workloads from a seeded hostile generator and Go native coverage-guided fuzzing",
		Rule: "case = (program from a fixed menu of 16 definitions covering all kinds/modes/trees/help/required/require-order, entry point in {Parse, Parse+Dispatch, Help+GetRequiredArg helpers, completion bash, completion zsh, environment content + Parse, Parse(nil)}, token list); tokens from hostile pools (arbitrary bytes, empty strings, dashes and '=' shapes, numerals, int ranges with span <= 10^4, the program's own keys in every spelling), 1 MiB tokens, bundles of 10^5 letters, 10^5 tokens; " +
			"then native fuzzing of two targets from the seed corpus in the code. distinct = distinct (program, entry, token list); non-trivial = the token list is not empty. Int range tokens with a span above 10^4 are skipped (excluded by the statement).",
		Assumptions:     []string{"hang = no journal progress of a worker for 25 s (the slowest generated case takes < 2 s); a stall must reproduce 3/3 in isolation to count as a violation, otherwise it is reported as inconclusive"},
		PerCaseTimeoutS: 25,
		MemLimitMB:      6000,
		Cases:           func(tier string) int { return tierN(tier, 150000, 4000000) },
		Run: func(seed uint64, idx int, tier string) *fw.Result {
			c := c19Case(seed, idx)
			res := &fw.Result{Execs: 1}
			v, skipped := ExecFuzz(c)
			if skipped {
				res.Cells = []string{"skipped:range-span>10^4-or-empty"}
				return res
			}
			res.Events = len(c.Tokens) + 1
			res.Cells = []string{fmt.Sprintf("%s|mode=%s", fuzzEntries[c.Entry], modeNames[fuzzMenu[c.Spec].Mode])}
			if len(c.Tokens) > 1000 || (len(c.Tokens) == 1 && len(c.Tokens[0]) > 50000) {
				res.Cells = append(res.Cells, "huge-input")
			}
			sample := c
			if len(c.Tokens) > 40 || (len(c.Tokens) > 0 && len(c.Tokens[0]) > 500) {
				sample = &FuzzCase{Spec: c.Spec, Entry: c.Entry, Tokens: []string{fmt.Sprintf("<%d tokens, first starts with %.40q>", len(c.Tokens), c.Tokens[0])}}
			}
			res.Sample = map[string]interface{}{"entry": fuzzEntries[c.Entry], "case": sample}
			if v != "" {
				return &fw.Result{Viol: &fw.Violation{Msg: fmt.Sprintf("%s on program #%d, entry %s", v, c.Spec, fuzzEntries[c.Entry])}, Sample: res.Sample}
			}
			if len(c.Tokens) > 0 {
				h := fw.Hash64(string(EncodeFuzz(c)))
				res.Sig = strconv.FormatUint(h, 16)
			}
			return res
		},
		ReplayDetail: func(detail json.RawMessage) *fw.Result {
			var d struct {
				B64 string `json:"bytes_b64"`
			}
			if json.Unmarshal(detail, &d) != nil {
				return &fw.Result{Inconclusive: "cannot read the replay detail"}
			}
			data, _ := base64.StdEncoding.DecodeString(d.B64)
			c := DecodeFuzz(data)
			v, _ := ExecFuzz(c)
			res := &fw.Result{Sample: c}
			if v != "" {
				res.Viol = &fw.Violation{Msg: v}
			}
			return res
		},
		Post: func(cc *fw.CoordCtx, agg *fw.Agg) error {
			per := 6 * time.Second
			if cc.Tier == "thorough" {
				per = 150 * time.Second
			}
			hdir := filepath.Join(cc.VerifDir, "harness")
			for _, target := range []string{"FuzzParseDispatch", "FuzzCompletion"} {
				cmd := exec.Command("go", "test", "-tags", "verif", "-run", "^$", "-fuzz", "^"+target+"$", "-fuzztime", per.String(), "./fuzz")
				cmd.Dir = hdir
				cmd.Env = append(os.Environ(), "GOFLAGS=-mod=mod", "GOPROXY=off", "GOSUMDB=off", "GOTOOLCHAIN=local", "COMP_LINE=", "ZSHELL=")
				out, err := cmd.CombinedOutput()
				text := string(out)
				execs := 0
				for _, m := range regexp.MustCompile(`execs: (\d+)`).FindAllStringSubmatch(text, -1) {
					execs, _ = strconv.Atoi(m[1])
				}
				agg.Counters["native_fuzz_execs_"+target] += execs
				agg.Execs += execs
				if m := regexp.MustCompile(`new interesting: \d+ \(total: (\d+)\)`).FindAllStringSubmatch(text, -1); len(m) > 0 {
					n, _ := strconv.Atoi(m[len(m)-1][1])
					agg.Counters["native_fuzz_corpus_"+target] = n
				}
				if err == nil {
					continue
				}
				if m := failingInputRe.FindStringSubmatch(text); m != nil {
					f := filepath.Join(hdir, "fuzz", m[1])
					data, rerr := readGoFuzzFile(f)
					os.Remove(f)
					if rerr == nil {
						c := DecodeFuzz(data)
						v, _ := ExecFuzz(c)
						agg.NViolations++
						agg.Violations = append(agg.Violations, fw.ViolRec{Idx: -2, Msg: fmt.Sprintf("native fuzzing (%s) found: %s", target, v),
							Detail: map[string]interface{}{"bytes_b64": base64.StdEncoding.EncodeToString(data), "case": c, "go_test_output": tailStr(text, 1500)}})
						continue
					}
				}
				if strings.Contains(text, "fuzzing process hung or terminated unexpectedly") || strings.Contains(text, "panic:") || strings.Contains(text, "FAIL") {
					agg.NViolations++
					agg.Violations = append(agg.Violations, fw.ViolRec{Idx: -2, Msg: "native fuzzing (" + target + ") failed", Detail: map[string]interface{}{"go_test_output": tailStr(text, 3000)}})
					continue
				}
				return fmt.Errorf("go test -fuzz %s: %v: %s", target, err, tailStr(text, 600))
			}
			return nil
		},
	})
}

func tailStr(s string, n int) string {
	if len(s) > n {
		return s[len(s)-n:]
	}
	return s
}
