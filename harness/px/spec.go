// Package px - parser-side harness: program specs built through the public API only,
// outcome capture, generators and the per-property monitors.
package px

import (
	"bytes"
	"context"
	"encoding/gob"
	"errors"
	"fmt"
	"math"
	"os"
	"sort"
	"strconv"
	"strings"

	"github.com/DavidGamba/go-getoptions"
)

type Kind int

const (
	KBool Kind = iota
	KIncr
	KString
	KInt
	KFloat
	KStringOpt
	KIntOpt
	KFloatOpt
	KStrings
	KInts
	KFloats
	KMap
	NKinds
)

var kindNames = []string{"bool", "incr", "string", "int", "float", "stringopt", "intopt", "floatopt", "strings", "ints", "floats", "map"}

func (k Kind) String() string { return kindNames[k] }

func (k Kind) IsFlag() bool     { return k == KBool || k == KIncr }
func (k Kind) IsScalar() bool   { return k == KString || k == KInt || k == KFloat }
func (k Kind) IsOptional() bool { return k == KStringOpt || k == KIntOpt || k == KFloatOpt }
func (k Kind) IsMulti() bool    { return k >= KStrings && k <= KMap }
func (k Kind) IsInt() bool      { return k == KInt || k == KIntOpt || k == KInts }
func (k Kind) IsFloat() bool    { return k == KFloat || k == KFloatOpt || k == KFloats }
func (k Kind) IsStr() bool      { return k == KString || k == KStringOpt || k == KStrings }

// Opt - declaration of one option.
type Opt struct {
	ID         int      `json:"id"`
	Kind       Kind     `json:"kind"`
	Name       string   `json:"name"`
	Aliases    []string `json:"aliases,omitempty"`
	DefB       bool     `json:"defb,omitempty"`
	DefS       string   `json:"defs,omitempty"`
	DefI       int      `json:"defi,omitempty"`
	DefF       float64  `json:"deff,omitempty"`
	Min        int      `json:"min,omitempty"`
	Max        int      `json:"max,omitempty"`
	Required   bool     `json:"required,omitempty"`
	ReqMsg     string   `json:"reqmsg,omitempty"`
	Env        string   `json:"env,omitempty"`
	EnvSet     bool     `json:"envset,omitempty"` // set the variable to EnvVal before defining
	EnvVal     string   `json:"envval,omitempty"`
	Valid      []string `json:"valid,omitempty"`
	ValidSplit bool     `json:"validsplit,omitempty"` // valid values given through two ValidValues modifiers instead of one
	Suggested  []string `json:"suggested,omitempty"`
	SuggFn     []string `json:"suggfn,omitempty"` // what the dynamic value-completion function returns
	Desc       string   `json:"desc,omitempty"`
	ArgName    string   `json:"argname,omitempty"`
	UseVar     bool     `json:"usevar,omitempty"`
	SetCalled  bool     `json:"setcalled,omitempty"`
	AliasSplit bool     `json:"aliassplit,omitempty"` // aliases given through two Alias modifiers instead of one
	// Late - declared on its level after the level's commands were created; a later HelpCommand on the program copies
	// it down the tree like any other option (only generated for programs with a help command)
	Late bool `json:"late,omitempty"`
	// Mid - declared after the first command of its level and before the next one
	Mid bool `json:"mid,omitempty"`
	// SetCalledFirst - SetCalled(true) is the first modifier (in front of GetEnv)
	SetCalledFirst bool `json:"setcalledfirst,omitempty"`
}

// Keys - name followed by aliases.
func (o *Opt) Keys() []string {
	return append([]string{o.Name}, o.Aliases...)
}

// Cmd - declaration of one command (the root is a Cmd too).
type Cmd struct {
	Name      string   `json:"name"`
	Desc      string   `json:"desc,omitempty"`
	HasFn     bool     `json:"hasfn,omitempty"`
	FnErr     bool     `json:"fnerr,omitempty"` // CommandFn returns a sentinel error
	Unset     bool     `json:"unset,omitempty"`
	Unknown   int      `json:"unknown"` // -1 inherit (no call), else SetUnknownMode
	ReqOrder  bool     `json:"reqorder,omitempty"`
	Opts      []*Opt   `json:"opts,omitempty"`
	Cmds      []*Cmd   `json:"cmds,omitempty"`
	ArgComp   []string `json:"argcomp,omitempty"`
	ArgCompFn []string `json:"argcompfn,omitempty"`
	// ArgCompFnSplit - the dynamic candidates come from two functions registered through two ArgCompletionsFns calls
	ArgCompFnSplit bool        `json:"argcompfnsplit,omitempty"`
	SynArgs        [][2]string `json:"synargs,omitempty"`
}

// Prog - a complete program definition.
type Prog struct {
	Mode     int  `json:"mode"`
	Unknown  int  `json:"unknown"`
	ReqOrder bool `json:"reqorder,omitempty"`
	MapLower bool `json:"maplower,omitempty"`
	// LateMapLower - SetMapKeysToLower is called after the commands were defined (it is a setting of the program, not of a level)
	LateMapLower bool     `json:"latemaplower,omitempty"`
	Help         string   `json:"help,omitempty"`
	HelpAliases  []string `json:"helpaliases,omitempty"` // aliases of the help flag (modifiers given to HelpCommand)
	SelfName     string   `json:"selfname,omitempty"`
	SelfDesc     string   `json:"selfdesc,omitempty"`
	LateMode     bool     `json:"latemode,omitempty"` // SetMode is called after the commands are defined
	// EarlyMode - 1+mode set before the commands are defined when LateMode sets the final one (0 = no early call)
	EarlyMode int `json:"earlymode,omitempty"`
	// LateUnknown / LateReqOrder - SetUnknownMode / SetRequireOrder are called on the program after its commands were
	// defined: commands copy these two settings when they are created, so they keep the defaults (Fail, no require-order)
	LateUnknown  bool `json:"lateunknown,omitempty"`
	LateReqOrder bool `json:"latereqorder,omitempty"`
	Root         *Cmd `json:"root"`
}

var modeNames = []string{"normal", "bundling", "singledash"}
var unkNames = []string{"fail", "warn", "pass"}

// ---------------------------------------------------------------------------------------------
// Spec-level tree facts (computed from the spec alone; mirrors the documented inheritance).

// Node - a resolved node of the spec tree.
type Node struct {
	Cmd      *Cmd
	Parent   *Node
	Path     string // "" for root, "a/b" below
	Visible  []*Opt // own + inherited, definition order
	Children map[string]*Node
	IsHelp   bool
	Unknown  int
	ReqOrder bool
	helpOpt  *Opt
}

// Tree - resolved spec.
type Tree struct {
	Prog  *Prog
	Root  *Node
	Nodes map[string]*Node
	// HelpOpt is the bool option HelpCommand creates (nil when no help command).
	HelpOpt *Opt
}

// Resolve - computes visibility and effective modes for every node.
func Resolve(p *Prog) *Tree {
	t := &Tree{Prog: p, Nodes: map[string]*Node{}}
	if p.Help != "" {
		t.HelpOpt = &Opt{ID: -1, Kind: KBool, Name: p.Help, Aliases: p.HelpAliases}
	}
	var rec func(c *Cmd, parent *Node, path string) *Node
	rec = func(c *Cmd, parent *Node, path string) *Node {
		n := &Node{Cmd: c, Parent: parent, Path: path, Children: map[string]*Node{}}
		if parent == nil {
			n.Unknown = p.Unknown
			n.ReqOrder = p.ReqOrder
		} else {
			n.Unknown = parent.Unknown
			n.ReqOrder = parent.ReqOrder
			if parent.Parent == nil {
				// what the root had when the command was created
				if p.LateUnknown {
					n.Unknown = 0
				}
				if p.LateReqOrder {
					n.ReqOrder = false
				}
			}
		}
		if c.Unknown >= 0 {
			n.Unknown = c.Unknown
		}
		if c.ReqOrder {
			n.ReqOrder = true
		}
		if parent != nil && !c.Unset {
			n.Visible = append(n.Visible, parent.Visible...)
		}
		// the help flag is defined on the root after everything else and then copied down,
		// but not into wrappers (nor below them)
		n.Visible = append(n.Visible, c.Opts...)
		t.Nodes[path] = n
		for _, cc := range c.Cmds {
			cp := cc.Name
			if path != "" {
				cp = path + "/" + cc.Name
			}
			n.Children[cc.Name] = rec(cc, n, cp)
		}
		return n
	}
	t.Root = rec(p.Root, nil, "")
	if t.HelpOpt != nil {
		var addHelp func(n *Node, inherit bool)
		addHelp = func(n *Node, inherit bool) {
			if n.Cmd.Unset {
				inherit = false
			}
			if inherit {
				n.Visible = append(n.Visible, t.HelpOpt)
				n.helpOpt = t.HelpOpt
			}
			for _, c := range n.Children {
				addHelp(c, inherit)
			}
			hp := p.Help
			if n.Path != "" {
				hp = n.Path + "/" + p.Help
			}
			h := &Node{Cmd: &Cmd{Name: p.Help, HasFn: true, Unknown: -1}, Parent: n, Path: hp, Children: map[string]*Node{}, IsHelp: true}
			// the help node does not inherit unknown mode / require order: it is created with zero values
			h.Unknown = 0
			h.ReqOrder = false
			n.Children[p.Help] = h
			t.Nodes[hp] = h
		}
		addHelp(t.Root, true)
	}
	return t
}

// HasHelpOpt - the help flag is visible at this node.
func (n *Node) HasHelpOpt() bool { return n.helpOpt != nil }

// KeyTable - all keys (names and aliases) usable at the node -> option.
func (n *Node) KeyTable() map[string]*Opt {
	m := map[string]*Opt{}
	for _, o := range n.Visible {
		for _, k := range o.Keys() {
			m[k] = o
		}
	}
	return m
}

// SortedKeys of the node's key table.
func (n *Node) SortedKeys() []string {
	m := n.KeyTable()
	ks := make([]string, 0, len(m))
	for k := range m {
		ks = append(ks, k)
	}
	sort.Strings(ks)
	return ks
}

// Matches - keys of the level that start with p (all of them).
func (n *Node) Matches(p string) []string {
	var out []string
	for _, k := range n.SortedKeys() {
		if strings.HasPrefix(k, p) {
			out = append(out, k)
		}
	}
	return out
}

// ResolveKey - documented resolution of a typed name at this level:
// exact key wins, else unique prefix, else ambiguous (list) or unknown (nil).
func (n *Node) ResolveKey(p string) (key string, opt *Opt, ambiguous []string) {
	kt := n.KeyTable()
	if o, ok := kt[p]; ok {
		return p, o, nil
	}
	m := n.Matches(p)
	switch len(m) {
	case 0:
		return "", nil, nil
	case 1:
		return m[0], kt[m[0]], nil
	}
	return "", nil, m
}

// AllOpts - every option object of the program (by ID), help flag excluded.
func (t *Tree) AllOpts() []*Opt {
	var out []*Opt
	var rec func(c *Cmd)
	rec = func(c *Cmd) {
		out = append(out, c.Opts...)
		for _, cc := range c.Cmds {
			rec(cc)
		}
	}
	rec(t.Prog.Root)
	return out
}

// ---------------------------------------------------------------------------------------------
// Building the real program through the public API.

// FnCall - what an instrumented CommandFn observed.
type FnCall struct {
	Node   string            `json:"node"`
	Ctx    string            `json:"ctx"`
	Args   []string          `json:"args"`
	ArgNil bool              `json:"argnil,omitempty"`
	View   map[string]OptObs `json:"view,omitempty"`
}

// OptObs - observable state of one key at one level.
type OptObs struct {
	Val      string `json:"val"`
	Called   bool   `json:"called,omitempty"`
	CalledAs string `json:"calledas,omitempty"`
}

type ptrHolder struct {
	b  *bool
	s  *string
	i  *int
	f  *float64
	ss *[]string
	ii *[]int
	ff *[]float64
	m  map[string]string
	mp *map[string]string
}

func (h *ptrHolder) enc() string {
	switch {
	case h.b != nil:
		return Enc(*h.b)
	case h.s != nil:
		return Enc(*h.s)
	case h.i != nil:
		return Enc(*h.i)
	case h.f != nil:
		return Enc(*h.f)
	case h.ss != nil:
		return Enc(*h.ss)
	case h.ii != nil:
		return Enc(*h.ii)
	case h.ff != nil:
		return Enc(*h.ff)
	case h.mp != nil:
		return Enc(*h.mp)
	case h.m != nil:
		return Enc(h.m)
	}
	return "<noptr>"
}

type ctxKey string

// CtxMarker - key under which the caller's marker travels in the context given to Dispatch.
const CtxMarker ctxKey = "verif-marker"

// ErrFnSentinel - what a CommandFn scripted to fail returns.
var ErrFnSentinel = errors.New("verif: scripted CommandFn error")

// Built - a real program plus the handles needed to observe it.
type Built struct {
	Tree   *Tree
	Opt    *getoptions.GetOpt
	Nodes  map[string]*getoptions.GetOpt // by path (help nodes are not reachable through the API)
	Ptrs   map[int]*ptrHolder
	Calls  []FnCall
	Writer *bytes.Buffer
	// completion function call log
	CompCalls int
	envUndo   []func()
}

// Enc - canonical text of an option value.
func Enc(v interface{}) string {
	switch x := v.(type) {
	case nil:
		return "nil"
	case bool:
		return "b:" + strconv.FormatBool(x)
	case int:
		return "i:" + strconv.Itoa(x)
	case string:
		return "s:" + strconv.Quote(x)
	case float64:
		return "f:" + strconv.FormatUint(math.Float64bits(x), 16)
	case []string:
		if x == nil {
			return "ss:nil"
		}
		parts := make([]string, len(x))
		for i, e := range x {
			parts[i] = strconv.Quote(e)
		}
		return "ss:[" + strings.Join(parts, ",") + "]"
	case []int:
		if x == nil {
			return "ii:nil"
		}
		parts := make([]string, len(x))
		for i, e := range x {
			parts[i] = strconv.Itoa(e)
		}
		return "ii:[" + strings.Join(parts, ",") + "]"
	case []float64:
		if x == nil {
			return "ff:nil"
		}
		parts := make([]string, len(x))
		for i, e := range x {
			parts[i] = strconv.FormatUint(math.Float64bits(e), 16)
		}
		return "ff:[" + strings.Join(parts, ",") + "]"
	case map[string]string:
		if x == nil {
			return "m:nil"
		}
		ks := make([]string, 0, len(x))
		for k := range x {
			ks = append(ks, k)
		}
		sort.Strings(ks)
		parts := make([]string, len(ks))
		for i, k := range ks {
			parts[i] = strconv.Quote(k) + "=" + strconv.Quote(x[k])
		}
		return "m:{" + strings.Join(parts, ",") + "}"
	}
	return fmt.Sprintf("?%T:%v", v, v)
}

// DefaultEnc - canonical text of the declared default of an option.
func DefaultEnc(o *Opt) string {
	switch o.Kind {
	case KBool:
		return Enc(o.DefB)
	case KIncr, KInt, KIntOpt:
		return Enc(o.DefI)
	case KString, KStringOpt:
		return Enc(o.DefS)
	case KFloat, KFloatOpt:
		return Enc(o.DefF)
	case KStrings:
		return Enc([]string{})
	case KInts:
		return Enc([]int{})
	case KFloats:
		return Enc([]float64{})
	case KMap:
		return Enc(map[string]string{})
	}
	return "?"
}

// Build - defines the program through the public API, in the documented order
// (options of a level, then its commands, HelpCommand last). Panics at definition propagate.
func Build(p *Prog) *Built {
	b := &Built{Tree: Resolve(p), Nodes: map[string]*getoptions.GetOpt{}, Ptrs: map[int]*ptrHolder{}, Writer: &bytes.Buffer{}}
	getoptions.Writer = b.Writer
	opt := getoptions.New()
	b.Opt = opt
	if p.SelfName != "" || p.SelfDesc != "" {
		opt.Self(p.SelfName, p.SelfDesc)
	}
	if !p.LateMode {
		opt.SetMode(getoptions.Mode(p.Mode))
	} else if p.EarlyMode > 0 {
		opt.SetMode(getoptions.Mode(p.EarlyMode - 1)) // overridden by the late call: the mode set last is the program's mode
	}
	if !p.LateUnknown {
		opt.SetUnknownMode(getoptions.UnknownMode(p.Unknown))
	}
	if p.ReqOrder && !p.LateReqOrder {
		opt.SetRequireOrder()
	}
	if p.MapLower && !p.LateMapLower {
		opt.SetMapKeysToLower()
	}
	b.defineLevel(opt, p.Root, "")
	if p.MapLower && p.LateMapLower {
		opt.SetMapKeysToLower()
	}
	if p.LateMode {
		opt.SetMode(getoptions.Mode(p.Mode))
	}
	if p.LateUnknown {
		opt.SetUnknownMode(getoptions.UnknownMode(p.Unknown))
	}
	if p.ReqOrder && p.LateReqOrder {
		opt.SetRequireOrder()
	}
	if p.Help != "" {
		if len(p.HelpAliases) > 0 {
			opt.HelpCommand(p.Help, opt.Alias(p.HelpAliases...))
		} else {
			opt.HelpCommand(p.Help)
		}
	}
	return b
}

// Cleanup - restores the environment touched by Build.
func (b *Built) Cleanup() {
	for i := len(b.envUndo) - 1; i >= 0; i-- {
		b.envUndo[i]()
	}
	b.envUndo = nil
}

func (b *Built) setEnv(name, val string, set bool) {
	old, had := os.LookupEnv(name)
	if set {
		os.Setenv(name, val)
	} else {
		os.Unsetenv(name)
	}
	b.envUndo = append(b.envUndo, func() {
		if had {
			os.Setenv(name, old)
		} else {
			os.Unsetenv(name)
		}
	})
}

func (b *Built) defineLevel(g *getoptions.GetOpt, c *Cmd, path string) {
	b.Nodes[path] = g
	if c.Unset {
		g.UnsetOptions()
	}
	if c.Unknown >= 0 && path != "" {
		g.SetUnknownMode(getoptions.UnknownMode(c.Unknown))
	}
	if c.ReqOrder && path != "" {
		g.SetRequireOrder()
	}
	for _, a := range c.SynArgs {
		g.HelpSynopsisArg(a[0], a[1])
	}
	if len(c.ArgComp) > 0 {
		g.ArgCompletions(c.ArgComp...)
	}
	if len(c.ArgCompFn) > 0 {
		ret := c.ArgCompFn
		if c.ArgCompFnSplit && len(ret) >= 2 {
			first, second := ret[:1], ret[1:]
			g.ArgCompletionsFns(func(target string, prev []string, partial string) []string {
				b.CompCalls++
				return append([]string{}, first...)
			})
			g.ArgCompletionsFns(func(target string, prev []string, partial string) []string {
				return append([]string{}, second...)
			})
		} else {
			g.ArgCompletionsFns(func(target string, prev []string, partial string) []string {
				b.CompCalls++
				return append([]string{}, ret...)
			})
		}
	}
	for _, o := range c.Opts {
		if !o.Late && !o.Mid {
			b.defineOpt(g, o)
		}
	}
	if c.HasFn {
		node := path
		fnErr := c.FnErr
		g.SetCommandFn(func(ctx context.Context, view *getoptions.GetOpt, args []string) error {
			call := FnCall{Node: node, Args: append([]string{}, args...), ArgNil: args == nil, View: map[string]OptObs{}}
			if v := ctx.Value(CtxMarker); v != nil {
				call.Ctx = fmt.Sprint(v)
			}
			n := b.Tree.Nodes[node]
			for k := range n.KeyTable() {
				call.View[k] = OptObs{Val: Enc(view.Value(k)), Called: view.Called(k), CalledAs: view.CalledAs(k)}
			}
			b.Calls = append(b.Calls, call)
			if fnErr {
				return ErrFnSentinel
			}
			return nil
		})
	}
	for ci, cc := range c.Cmds {
		if ci == 1 {
			for _, o := range c.Opts {
				if o.Mid {
					b.defineOpt(g, o)
				}
			}
		}
		sub := g.NewCommand(cc.Name, cc.Desc)
		cp := cc.Name
		if path != "" {
			cp = path + "/" + cc.Name
		}
		b.defineLevel(sub, cc, cp)
	}
	for _, o := range c.Opts {
		if o.Late {
			b.defineOpt(g, o)
		}
	}
}

func (b *Built) defineOpt(g *getoptions.GetOpt, o *Opt) {
	if o.Env != "" {
		b.setEnv(o.Env, o.EnvVal, o.EnvSet)
	}
	var fns []getoptions.ModifyFn
	if o.SetCalledFirst {
		fns = append(fns, g.SetCalled(true))
	}
	if len(o.Aliases) > 1 && o.AliasSplit {
		fns = append(fns, g.Alias(o.Aliases[:1]...), g.Alias(o.Aliases[1:]...))
	} else if len(o.Aliases) > 0 {
		fns = append(fns, g.Alias(o.Aliases...))
	}
	if o.Desc != "" {
		fns = append(fns, g.Description(o.Desc))
	}
	if o.Required {
		if o.ReqMsg != "" {
			fns = append(fns, g.Required(o.ReqMsg))
		} else {
			fns = append(fns, g.Required())
		}
	}
	if o.Env != "" {
		fns = append(fns, g.GetEnv(o.Env))
	}
	if o.ArgName != "" {
		fns = append(fns, g.ArgName(o.ArgName))
	}
	if len(o.Valid) > 0 {
		if o.ValidSplit && len(o.Valid) >= 2 {
			fns = append(fns, g.ValidValues(o.Valid[:1]...), g.ValidValues(o.Valid[1:]...))
		} else {
			fns = append(fns, g.ValidValues(o.Valid...))
		}
	}
	if len(o.Suggested) > 0 {
		fns = append(fns, g.SuggestedValues(o.Suggested...))
	}
	if len(o.SuggFn) > 0 {
		ret := o.SuggFn
		fns = append(fns, g.SuggestedValuesFn(func(target, partial string) []string {
			b.CompCalls++
			return append([]string{}, ret...)
		}))
	}
	if o.SetCalled {
		fns = append(fns, g.SetCalled(true))
	}
	h := &ptrHolder{}
	b.Ptrs[o.ID] = h
	switch o.Kind {
	case KBool:
		if o.UseVar {
			h.b = new(bool)
			g.BoolVar(h.b, o.Name, o.DefB, fns...)
		} else {
			h.b = g.Bool(o.Name, o.DefB, fns...)
		}
	case KIncr:
		if o.UseVar {
			h.i = new(int)
			g.IncrementVar(h.i, o.Name, o.DefI, fns...)
		} else {
			h.i = g.Increment(o.Name, o.DefI, fns...)
		}
	case KString:
		if o.UseVar {
			h.s = new(string)
			g.StringVar(h.s, o.Name, o.DefS, fns...)
		} else {
			h.s = g.String(o.Name, o.DefS, fns...)
		}
	case KInt:
		if o.UseVar {
			h.i = new(int)
			g.IntVar(h.i, o.Name, o.DefI, fns...)
		} else {
			h.i = g.Int(o.Name, o.DefI, fns...)
		}
	case KFloat:
		if o.UseVar {
			h.f = new(float64)
			g.Float64Var(h.f, o.Name, o.DefF, fns...)
		} else {
			h.f = g.Float64(o.Name, o.DefF, fns...)
		}
	case KStringOpt:
		if o.UseVar {
			h.s = new(string)
			g.StringVarOptional(h.s, o.Name, o.DefS, fns...)
		} else {
			h.s = g.StringOptional(o.Name, o.DefS, fns...)
		}
	case KIntOpt:
		if o.UseVar {
			h.i = new(int)
			g.IntVarOptional(h.i, o.Name, o.DefI, fns...)
		} else {
			h.i = g.IntOptional(o.Name, o.DefI, fns...)
		}
	case KFloatOpt:
		if o.UseVar {
			h.f = new(float64)
			g.Float64VarOptional(h.f, o.Name, o.DefF, fns...)
		} else {
			h.f = g.Float64Optional(o.Name, o.DefF, fns...)
		}
	case KStrings:
		if o.UseVar {
			h.ss = new([]string)
			*h.ss = []string{}
			g.StringSliceVar(h.ss, o.Name, o.Min, o.Max, fns...)
		} else {
			h.ss = g.StringSlice(o.Name, o.Min, o.Max, fns...)
		}
	case KInts:
		if o.UseVar {
			h.ii = new([]int)
			*h.ii = []int{}
			g.IntSliceVar(h.ii, o.Name, o.Min, o.Max, fns...)
		} else {
			h.ii = g.IntSlice(o.Name, o.Min, o.Max, fns...)
		}
	case KFloats:
		if o.UseVar {
			h.ff = new([]float64)
			*h.ff = []float64{}
			g.Float64SliceVar(h.ff, o.Name, o.Min, o.Max, fns...)
		} else {
			h.ff = g.Float64Slice(o.Name, o.Min, o.Max, fns...)
		}
	case KMap:
		if o.UseVar {
			h.mp = new(map[string]string)
			g.StringMapVar(h.mp, o.Name, o.Min, o.Max, fns...)
		} else {
			h.m = g.StringMap(o.Name, o.Min, o.Max, fns...)
		}
	}
}

// ---------------------------------------------------------------------------------------------
// Outcome capture.

// Outcome - everything observable after Parse (and optionally Dispatch).
type Outcome struct {
	Panic     string            `json:"panic,omitempty"`
	HasErr    bool              `json:"haserr,omitempty"`
	Err       string            `json:"err,omitempty"`
	IsParsing bool              `json:"isparsing,omitempty"`
	Remaining []string          `json:"remaining"`
	RemNil    bool              `json:"remnil,omitempty"`
	Opts      map[string]OptObs `json:"opts,omitempty"` // "<path>|<key>"
	Ptrs      map[int]string    `json:"ptrs,omitempty"` // option id -> value seen through the definition pointer / Var
	Writer    string            `json:"writer,omitempty"`

	Dispatched  bool     `json:"dispatched,omitempty"`
	DispErr     string   `json:"disperr,omitempty"`
	DispHasErr  bool     `json:"disphaserr,omitempty"`
	DispHelp    bool     `json:"disphelp,omitempty"`
	DispParsing bool     `json:"dispparsing,omitempty"`
	DispFnErr   bool     `json:"dispfnerr,omitempty"`
	DispWriter  string   `json:"dispwriter,omitempty"`
	Calls       []FnCall `json:"calls,omitempty"`
}

// Snapshot - reads every key at every API-reachable level plus the pointers.
func (b *Built) Snapshot(oc *Outcome) {
	oc.Opts = map[string]OptObs{}
	oc.Ptrs = map[int]string{}
	for path, g := range b.Nodes {
		n := b.Tree.Nodes[path]
		for k := range n.KeyTable() {
			oc.Opts[path+"|"+k] = OptObs{Val: Enc(g.Value(k)), Called: g.Called(k), CalledAs: g.CalledAs(k)}
		}
	}
	for id, h := range b.Ptrs {
		oc.Ptrs[id] = h.enc()
	}
}

// RunParse - Parse with panic capture.
func (b *Built) RunParse(argv []string) (oc *Outcome) {
	oc = &Outcome{}
	b.Writer.Reset()
	getoptions.Writer = b.Writer
	func() {
		defer func() {
			if r := recover(); r != nil {
				oc.Panic = fmt.Sprint(r)
			}
		}()
		in := append([]string{}, argv...)
		if argv == nil {
			in = nil
		}
		rem, err := b.Opt.Parse(in)
		oc.Remaining = rem
		oc.RemNil = rem == nil
		if err != nil {
			oc.HasErr = true
			oc.Err = err.Error()
			oc.IsParsing = errors.Is(err, getoptions.ErrorParsing)
		}
	}()
	oc.Writer = b.Writer.String()
	if oc.Panic == "" {
		b.Snapshot(oc)
	}
	return oc
}

// RunDispatch - Dispatch after a Parse, with the marker context.
func (b *Built) RunDispatch(oc *Outcome, marker string) {
	b.Writer.Reset()
	b.Calls = nil
	oc.Dispatched = true
	func() {
		defer func() {
			if r := recover(); r != nil {
				oc.Panic = "dispatch: " + fmt.Sprint(r)
			}
		}()
		ctx := context.WithValue(context.Background(), CtxMarker, marker)
		err := b.Opt.Dispatch(ctx, oc.Remaining)
		if err != nil {
			oc.DispHasErr = true
			oc.DispErr = err.Error()
			oc.DispHelp = errors.Is(err, getoptions.ErrorHelpCalled)
			oc.DispParsing = errors.Is(err, getoptions.ErrorParsing)
			oc.DispFnErr = errors.Is(err, ErrFnSentinel)
		}
	}()
	oc.DispWriter = b.Writer.String()
	oc.Calls = b.Calls
}

// Run - build, parse (and dispatch when asked), cleanup. One fresh program per call.
func Run(p *Prog, argv []string, dispatch bool) (oc *Outcome) {
	var b *Built
	defPanic := ""
	func() {
		defer func() {
			if r := recover(); r != nil {
				defPanic = fmt.Sprint(r)
			}
		}()
		b = Build(p)
	}()
	if defPanic != "" {
		return &Outcome{Panic: "definition: " + defPanic}
	}
	defer b.Cleanup()
	oc = b.RunParse(argv)
	if dispatch && oc.Panic == "" && !oc.HasErr {
		b.RunDispatch(oc, "mk")
	}
	return oc
}

// CloneProg - deep copy of a program definition.
func CloneProg(p *Prog) *Prog {
	// gob, not JSON: names and values may hold bytes that are not valid UTF-8
	var buf bytes.Buffer
	var q Prog
	if err := gob.NewEncoder(&buf).Encode(p); err != nil {
		panic(err)
	}
	if err := gob.NewDecoder(&buf).Decode(&q); err != nil {
		panic(err)
	}
	fixUnknown(p.Root, q.Root)
	return &q
}

// CmdAt - the command declaration at a path ("" = root).
func (p *Prog) CmdAt(path string) *Cmd {
	c := p.Root
	if path == "" {
		return c
	}
	for _, name := range strings.Split(path, "/") {
		var next *Cmd
		for _, cc := range c.Cmds {
			if cc.Name == name {
				next = cc
			}
		}
		if next == nil {
			return nil
		}
		c = next
	}
	return c
}

// fixUnknown - gob drops zero values and keeps pointers' structure; nothing to repair today, kept as the single place
// where a field that must survive a clone would be restored.
func fixUnknown(a, b *Cmd) {}
