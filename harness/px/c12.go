package px

import (
	"fmt"
	"strings"

	"verif/fw"
)

// C12 - value precedence is command line over environment variable over default.

var c12Kinds = []Kind{KBool, KString, KInt, KFloat, KStringOpt, KIntOpt, KFloatOpt}
var c12Env = []string{"unset", "empty", "valid", "invalid", "mixedcase", "equal-default", "equal-cli"}
var c12CLI = []string{"absent", "attached", "detached", "bare"}

const c12Grid = 7 * 7 * 4 * 3 * 2 // kind x env x cli x default x defined-via-Var

func c12Default(k Kind, i int) *Opt {
	o := &Opt{Kind: k}
	switch {
	case k == KBool:
		o.DefB = i%2 == 1
	case k.IsInt():
		o.DefI = []int{0, 42, -7}[i%3]
	case k.IsFloat():
		o.DefF = []float64{0, 1.5, -2.25}[i%3]
	default:
		o.DefS = []string{"", "dflt", "d e"}[i%3]
	}
	return o
}

func c12ValidText(r *Rng, k Kind, hostile bool) string {
	switch {
	case k == KBool:
		return r.Pick([]string{"true", "false"})
	case k.IsInt():
		if hostile {
			return r.Pick([]string{"007", "+7", "-0", "9223372036854775807", "-9223372036854775808", "12"})
		}
		return fmt.Sprint(r.Range(100, 999))
	case k.IsFloat():
		if hostile {
			return r.Pick([]string{"1e3", ".5", "5.", "NaN", "-Inf", "0x1p-2", "1e-400", "16777217"})
		}
		return fmt.Sprint(r.Range(100, 999)) + ".25"
	}
	if hostile {
		return r.Pick(HostilePlain)
	}
	return "txt" + fmt.Sprint(r.Range(100, 999))
}

func c12InvalidText(r *Rng, k Kind) string {
	switch {
	case k == KBool:
		return r.Pick([]string{"yes", "1", "0", "t", "tru", " true", "true ", "on", "TRUEE", "fal\u017fe", "FAL\u017fE", "tr\u00fce", "\uff54rue"})
	case k.IsInt():
		return r.Pick([]string{"x", "1.5", "1x", " 1", "0x10", "1e3", "9223372036854775808"})
	case k.IsFloat():
		return r.Pick([]string{"x", "1.5.5", "1e999", " 1", "1,5"})
	}
	return "" // every text is valid for strings
}

func defText(o *Opt) string {
	switch {
	case o.Kind == KBool:
		return fmt.Sprint(o.DefB)
	case o.Kind.IsInt():
		return fmt.Sprint(o.DefI)
	case o.Kind.IsFloat():
		return fmt.Sprint(o.DefF)
	}
	return o.DefS
}

func init() {
	fw.Register(&fw.Check{
		ID:             "C12",
		ExhaustivePart: "kind(7) x env class(7) x CLI class(4) x default(3) x pointer/Var(2) enumerated completely in both tiers",
		Technique:      "runtime monitor: 3-way precedence table (CLI > valid env text > default) over value/Called/CalledAs read back from real definitions made with the environment set, followed by real Parse executions",
		Rule: "quick enumerates kind(7) x env{unset, empty, valid, invalid, mixed-case, equal to default, equal to CLI value}(7) x CLI{absent, --n=v, --n v, flag/bare}(4) x default(3) x pointer/Var(2) completely and adds hostile env/CLI texts; thorough adds more hostile texts, aliases and sibling options. " +
			"distinct = (kind, env class, cli class, default, texts); non-trivial = the environment variable or the command line actually decides the value. Unasserted (statement silent): Called when the env text is invalid; the value of a bare optional-value option on the CLI while a valid env text is set.",
		Assumptions: []string{"os.Setenv is called by the single-threaded worker before the definition call (the library reads the variable at definition)"},
		Cases:       func(tier string) int { return tierN(tier, c12Grid+40000, c12Grid+3000000) },
		Run: func(seed uint64, idx int, tier string) *fw.Result {
			r := CaseRng(seed, "C12", idx)
			g := idx % c12Grid
			kind := c12Kinds[g%7]
			g /= 7
			envC := c12Env[g%7]
			g /= 7
			cliC := c12CLI[g%4]
			g /= 4
			o := c12Default(kind, g%3)
			g /= 3
			o.UseVar = g%2 == 1
			hostile := idx >= c12Grid
			o.ID, o.Name, o.Env = 0, "target", fmt.Sprintf("VERIF_C12_%d", idx%7)
			o.SetCalledFirst = hostile && r.Chance(1, 8) // SetCalled(true) given in front of GetEnv: the variable still decides value and CalledAs
			if hostile && r.Bool() {
				o.Aliases = []string{"t", "tgt"}
			}
			sib := &Opt{ID: 1, Kind: KString, Name: "sibling", DefS: "sib", Env: "VERIF_C12_SIB"}
			if r.Bool() {
				sib.EnvSet, sib.EnvVal = true, "sibenv"
			}
			p := &Prog{Mode: r.Intn(3), Unknown: 0, Root: &Cmd{Unknown: -1, HasFn: true, Opts: []*Opt{o, sib}}}
			// the command line may end in a command: an ordinary one (inherits the options), a wrapper (UnsetOptions)
			// or the built-in help command; what the program reads through the root object must not depend on that
			ending := ""
			if hostile {
				p.Root.Cmds = []*Cmd{{Name: "sub", Unknown: -1, HasFn: true}, {Name: "wrap", Unknown: 2, HasFn: true, Unset: true}}
				p.Help = "help"
				ending = []string{"", "", "sub", "wrap", "help"}[r.Intn(5)]
			}
			cliVal := c12ValidText(r, kind, hostile)
			if kind == KBool {
				// bools take no value on the command line (C01): attached/detached collapse to the flag
				if cliC == "attached" || cliC == "detached" {
					cliC = "bare"
				}
			} else if !kind.IsOptional() && cliC == "bare" {
				cliC = "attached"
			}
			if cliC == "detached" && !IsPlain(cliVal) {
				cliC = "attached"
			}
			// environment
			switch envC {
			case "unset":
			case "empty":
				o.EnvSet, o.EnvVal = true, ""
			case "valid":
				o.EnvSet, o.EnvVal = true, c12ValidText(r, kind, hostile)
			case "invalid":
				o.EnvSet, o.EnvVal = true, c12InvalidText(r, kind)
				if o.EnvVal == "" {
					envC = "empty"
				}
			case "mixedcase":
				o.EnvSet = true
				if kind == KBool {
					o.EnvVal = r.Pick([]string{"TRUE", "True", "tRuE", "FALSE", "False", "fAlSe"})
				} else {
					o.EnvVal = c12ValidText(r, kind, true)
				}
			case "equal-default":
				o.EnvSet, o.EnvVal = true, defText(o)
				if o.EnvVal == "" {
					envC = "empty"
				}
			case "equal-cli":
				o.EnvSet, o.EnvVal = true, cliVal
			}
			// command line
			key := o.Name
			if len(o.Aliases) > 0 && r.Bool() {
				key = r.Pick(o.Aliases)
			}
			argv := []string{}
			if r.Bool() {
				argv = append(argv, "--sibling=cli-sib")
			}
			switch cliC {
			case "attached":
				argv = append(argv, "--"+key+"="+cliVal)
			case "detached":
				argv = append(argv, "--"+key, cliVal)
			case "bare":
				argv = append(argv, "--"+key)
			}
			if ending != "" && !(cliC == "bare" && kind != KBool) {
				argv = append(argv, ending)
			} else if r.Bool() && !(cliC == "bare" && kind != KBool) { // a plain token behind a bare optional-value option would be its value
				argv = append(argv, "pos1")
			}
			oc := Run(p, argv, false)
			doc := &CaseDoc{Prog: p, Argv: argv, Note: fmt.Sprintf("kind=%s env=%s(%q) cli=%s default=%s", kind, envC, o.EnvVal, cliC, defText(o))}
			res := &fw.Result{Execs: 1, Events: 3, Sample: doc, Cells: []string{fmt.Sprintf("%s|env=%s|cli=%s", kind, envC, cliC), "ends_in_command=" + ending}}
			fail := func(m string) *fw.Result { doc.Got = oc; return viol("precedence table", []string{m}, doc) }
			if oc.Panic != "" {
				return fail("panic: " + oc.Panic)
			}
			if oc.HasErr {
				return fail("unexpected parse error: " + oc.Err)
			}
			envV, envOK := interface{}(nil), false
			if o.EnvSet && o.EnvVal != "" {
				envV, envOK = EnvValid(o, o.EnvVal)
			}
			obs := oc.Opts["|target"]
			ptr := oc.Ptrs[0]
			def := DefaultEnc(o)
			var accept []string
			wantCalled, checkCalled, wantAs := false, true, ""
			switch cliC {
			case "attached", "detached":
				v, _ := ConvVal(kind, cliVal)
				accept = []string{Enc(v)}
				wantCalled, wantAs = true, key
			case "bare":
				wantCalled, wantAs = true, key
				if kind == KBool {
					accept = []string{Enc(!o.DefB)}
				} else { // optional-value option without value
					accept = []string{def}
					if envOK {
						accept = []string{def, Enc(envV)} // statement silent: both accepted
					}
				}
			case "absent":
				switch {
				case envOK:
					accept = []string{Enc(envV)}
					wantCalled, wantAs = true, o.Env
				case o.EnvSet && o.EnvVal != "": // invalid text
					accept = []string{def}
					checkCalled = false
				default:
					accept = []string{def}
				}
			}
			if !contains(accept, obs.Val) || ptr != obs.Val {
				return fail(fmt.Sprintf("value %s (pointer/Var %s), expected one of %v", obs.Val, ptr, accept))
			}
			if o.SetCalledFirst {
				wantCalled = true
			}
			if checkCalled {
				if obs.Called != wantCalled {
					return fail(fmt.Sprintf("Called = %v, expected %v", obs.Called, wantCalled))
				}
				if obs.CalledAs != wantAs {
					return fail(fmt.Sprintf("CalledAs = %q, expected %q", obs.CalledAs, wantAs))
				}
			}
			for _, a := range o.Aliases {
				if oc.Opts["|"+a] != obs {
					return fail(fmt.Sprintf("alias %q reads %+v, name reads %+v", a, oc.Opts["|"+a], obs))
				}
			}
			// the sibling follows the same table
			sv := oc.Opts["|sibling"]
			wantS := Enc("sib")
			if sib.EnvSet {
				wantS = Enc("sibenv")
			}
			if len(argv) > 0 && argv[0] == "--sibling=cli-sib" {
				wantS = Enc("cli-sib")
			}
			if sv.Val != wantS {
				return fail(fmt.Sprintf("sibling reads %s, expected %s", sv.Val, wantS))
			}
			if envOK || cliC != "absent" {
				res.Sig = fmt.Sprintf("%s|%s|%s|%s|%q|%q", kind, envC, cliC, def, o.EnvVal, strings.Join(argv, " "))
			}
			return res
		},
	})
}
