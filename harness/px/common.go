package px

import (
	"fmt"
	"strings"

	"verif/fw"
)

// CaseDoc - a case written out for evidence / replay files.
type CaseDoc struct {
	Prog   *Prog       `json:"prog"`
	Argv   []string    `json:"argv"`
	Items  []*Item     `json:"items,omitempty"`
	Expect interface{} `json:"expect,omitempty"`
	Got    *Outcome    `json:"got,omitempty"`
	Note   string      `json:"note,omitempty"`
	Extra  interface{} `json:"extra,omitempty"`
}

func slimOutcome(oc *Outcome) *Outcome {
	if oc == nil {
		return nil
	}
	c := *oc
	return &c
}

// scenSig - signature of a scenario: modes + item shape (not the payload texts).
func scenSig(s *Scenario) string {
	var sb strings.Builder
	fmt.Fprintf(&sb, "m%d u%d r%v|", s.Prog.Mode, s.Prog.Unknown, s.Prog.ReqOrder)
	for _, it := range s.Items {
		sb.WriteString(itemKindNames[it.K])
		if it.Opt != nil {
			sb.WriteString(":" + it.Opt.Kind.String())
			if it.Short {
				sb.WriteString("s")
			}
			if it.Attached {
				sb.WriteString("=")
			}
			if it.Typed != it.Key {
				sb.WriteString("~")
			}
			fmt.Fprintf(&sb, "%d", len(it.Vals))
		}
		if it.K == IUnk || it.K == IBundleUnk {
			fmt.Fprintf(&sb, "%d", len(it.UnkNames))
		}
		sb.WriteString("@" + it.Level + ",")
	}
	if s.Term {
		fmt.Fprintf(&sb, "--%d", len(s.Tail))
	} else if len(s.Tail) > 0 {
		fmt.Fprintf(&sb, "stop%d", len(s.Tail))
	}
	return sb.String()
}

func scenCells(s *Scenario, prefix string) []string {
	cells := []string{fmt.Sprintf("%smode=%s", prefix, modeNames[s.Prog.Mode]), fmt.Sprintf("%sunknown=%s", prefix, unkNames[s.Prog.Unknown]),
		fmt.Sprintf("%srequire_order=%v", prefix, s.Prog.ReqOrder)}
	seen := map[string]bool{}
	for _, it := range s.Items {
		k := "item=" + itemKindNames[it.K]
		if it.Opt != nil {
			k += ":" + it.Opt.Kind.String()
		}
		if !seen[k] {
			seen[k] = true
			cells = append(cells, prefix+k)
		}
		if it.Level != "" && !seen["lvl"] {
			seen["lvl"] = true
			cells = append(cells, prefix+"inside_command")
		}
	}
	if s.Term {
		cells = append(cells, prefix+"terminator")
	}
	return cells
}

func viol(msg string, diffs []string, doc *CaseDoc) *fw.Result {
	return &fw.Result{Viol: &fw.Violation{Msg: msg + ": " + strings.Join(diffs, "; "), Detail: diffs}, Sample: doc}
}

func tierN(tier string, quick, thorough int) int {
	if tier == "thorough" {
		return thorough
	}
	return quick
}

// listDiff - entries only in a / only in b.
func listDiff(a, b []string) []string {
	ma, mb := map[string]bool{}, map[string]bool{}
	for _, x := range a {
		ma[x] = true
	}
	for _, x := range b {
		mb[x] = true
	}
	var out []string
	for _, x := range a {
		if !mb[x] {
			out = append(out, "with: "+x)
		}
	}
	for _, x := range b {
		if !ma[x] {
			out = append(out, "without: "+x)
		}
	}
	if len(out) > 8 {
		out = append(out[:8], "...")
	}
	return out
}

// genDims - what the shared program/scenario generators vary (appended to the Rule text of the checks that use them).
const genDims = " Program generator: 12 option kinds, pointer and *Var forms, 0-3 aliases (one or two Alias modifiers), nested-prefix and multibyte names incl. bytes that are not valid UTF-8, defaults, env bindings, valid values, command trees (depth<=3) with inherited options, UnsetOptions wrappers, per-command unknown mode and require-order, commands without function, help command with aliases, options declared before/between/after the commands of their level (the latter two only if the library accepts that order), SetMode/SetUnknownMode/SetRequireOrder called before or after the commands are defined, lonesome dash. Scenario generator: positionals (incl. empty strings, `-=x` shaped text), flags, valued/optional/multi-value occurrences (attached or detached values, hostile value texts, int ranges), command tokens, unknown options (long, short, digit names, bundled with known flags and argument-taking letters, spellings that are known at another level), bundles, abbreviations, `--` with hostile tails."
