package px

import (
	"fmt"
	"strconv"
	"strings"
	"unicode/utf8"
)

// Token classes (DESIGN section 4).

// IsPlain - plain text: does not start with a dash, or is of the shape `-=...` (a dash followed by `=` names no option:
// the library's splitter needs at least one name character, so such a token is text like any other).
func IsPlain(t string) bool { return !strings.HasPrefix(t, "-") || strings.HasPrefix(t, "-=") }

// IsOptLooking - `-`, `-<name>...`, `--<name>...` where <name> starts with something other than `-` and `=`.
func IsOptLooking(t string) bool {
	if t == "-" {
		return true
	}
	if !strings.HasPrefix(t, "-") {
		return false
	}
	rest := t[1:]
	if strings.HasPrefix(rest, "-") {
		rest = rest[1:]
	}
	if rest == "" {
		return false // "--"
	}
	if rest[0] == '-' {
		// three or more dashes in front of a name character (`---force`, `----x=1`): a mistyped option, option-looking;
		// dashes only (`---`) or dashes in front of `=` (`---=x`) stay grey
		rest = strings.TrimLeft(rest, "-")
		return rest != "" && rest[0] != '='
	}
	return rest[0] != '='
}

// note: `--=x`, `---` and `---=x` stay grey (the library reads them as options named `-` / `--`)

// IsGrey - starts with a dash but is neither `--` nor option-looking (`--=x`, `---`, `---=x`):
// the statements do not say what these are, semantic generators never produce them.
func IsGrey(t string) bool {
	return strings.HasPrefix(t, "-") && t != "--" && !IsOptLooking(t) && !IsPlain(t)
}

// ProgCfg - knobs of the program generator.
type ProgCfg struct {
	Kinds        []Kind
	RootOpts     [2]int
	CmdOpts      [2]int
	MaxDepth     int
	MaxFan       int
	Wrapper      bool // allow UnsetOptions wrappers
	Help         bool // allow a help command
	ReqOrder     bool // allow require-order
	CmdModes     bool // allow per-command unknown mode
	Multibyte    bool
	Aliases      int // max aliases per option
	Modes        []int
	Unknowns     []int
	Required     int // percent of options marked required
	MaxMulti     int // max for multi-value options (default 3)
	NestedNames  bool
	FnLess       bool // allow commands without fn
	LonesomeDash bool
	Env          int // percent of env-capable options bound to a variable
	SetCalled    int // percent of options defined with SetCalled(true)
	FnErr        bool
	ForceKinds   []Kind // kinds of the first root options
	Valid        int    // percent of string-kind options restricted to valid values
	Suggested    int    // percent of string-kind options with suggested (not enforced) values
	LateOpts     int    // percent of nodes with commands that get an option declared after their commands (needs Help)
}

var AllKinds = []Kind{KBool, KIncr, KString, KInt, KFloat, KStringOpt, KIntOpt, KFloatOpt, KStrings, KInts, KFloats, KMap}

// DefaultCfg - the general-purpose configuration.
func DefaultCfg() ProgCfg {
	return ProgCfg{
		Kinds: AllKinds, RootOpts: [2]int{2, 6}, CmdOpts: [2]int{0, 3}, MaxDepth: 2, MaxFan: 3,
		Wrapper: true, Help: false, ReqOrder: false, CmdModes: true, Multibyte: true, Aliases: 2,
		Modes: []int{0, 1, 2}, Unknowns: []int{0, 1, 2}, MaxMulti: 3, NestedNames: true, FnLess: false, LateOpts: 30, Suggested: 10,
	}
}

var optAlphabet = []string{"a", "b", "d", "e", "f", "g"}
var optAlphabetMB = []string{"a", "b", "d", "e", "f", "g", "é", "ß", "日", "a", "b", "d", "e", "f", "g", "é", "ß", "日", "\xe9", "\xff"} // incl. bytes that are not valid UTF-8 (Latin-1 names)
var stems = []string{"v", "ve", "ver", "verb", "verbose", "version", "f", "fo", "foo", "foobar", "d", "de", "deb", "debug", "dry", "a", "al", "all", "b", "ba", "bar", "baz", "g", "go", "é", "éa", "日本"}

type nameGen struct {
	r      *Rng
	cfg    *ProgCfg
	serial int
}

func (g *nameGen) optName(taken map[string]bool) string {
	for tries := 0; tries < 200; tries++ {
		var n string
		if g.cfg.NestedNames && g.r.Chance(1, 2) {
			n = g.r.Pick(stems)
			if !g.cfg.Multibyte && !isASCII(n) {
				continue
			}
		} else {
			al := optAlphabet
			if g.cfg.Multibyte {
				al = optAlphabetMB
			}
			l := g.r.Weighted([]int{0, 3, 2, 3, 2, 1})
			for i := 0; i < l; i++ {
				n += g.r.Pick(al)
			}
		}
		if n != "" && isASCII(n) && g.r.Chance(1, 8) {
			// names are case-sensitive: `v` and `V`, `ver` and `Ver` are different options (and sort bytewise, not alphabetically)
			if g.r.Bool() {
				n = strings.ToUpper(n[:1]) + n[1:]
			} else {
				n = strings.ToUpper(n)
			}
		}
		if n == "" || taken[n] {
			continue
		}
		return n
	}
	g.serial++
	return fmt.Sprintf("o%dq", g.serial)
}

func isASCII(s string) bool {
	for i := 0; i < len(s); i++ {
		if s[i] >= 0x80 {
			return false
		}
	}
	return true
}

var cmdNames = []string{"c", "co", "cmd", "clone", "k", "ka", "run", "r", "sub", "list", "log", "commit"}

// GenProg - random valid program definition.
func GenProg(r *Rng, cfg ProgCfg) *Prog {
	p := &Prog{}
	p.Mode = cfg.Modes[r.Intn(len(cfg.Modes))]
	p.Unknown = cfg.Unknowns[r.Intn(len(cfg.Unknowns))]
	if cfg.ReqOrder && r.Chance(1, 3) {
		p.ReqOrder = true
	}
	p.MapLower = r.Chance(1, 5)
	p.LateMode = r.Chance(1, 4)
	if p.LateMode && r.Chance(1, 2) {
		p.EarlyMode = 1 + r.Intn(3)
	}
	p.LateUnknown = r.Chance(1, 6)
	p.LateMapLower = p.MapLower && (p.LateMode || p.LateUnknown)
	p.LateReqOrder = p.ReqOrder && r.Chance(1, 4)
	if cfg.Help && r.Chance(2, 3) {
		p.Help = "help"
		if r.Chance(1, 4) {
			p.Help = "ayuda"
		}
	}
	if p.Help != "" && r.Chance(1, 3) {
		p.HelpAliases = [][]string{{"?"}, {"hh", "?"}, {"H"}}[r.Intn(3)]
	}
	ng := &nameGen{r: r, cfg: &cfg}
	id := 0
	if cfg.MaxMulti == 0 {
		cfg.MaxMulti = 3
	}
	var genCmd func(name string, depth int, inherited map[string]bool, isRoot bool) *Cmd
	genCmd = func(name string, depth int, inherited map[string]bool, isRoot bool) *Cmd {
		c := &Cmd{Name: name, Unknown: -1, HasFn: true}
		if cfg.FnLess && r.Chance(1, 4) {
			c.HasFn = false
		}
		if cfg.FnErr && c.HasFn && r.Chance(1, 6) {
			c.FnErr = true
		}
		taken := map[string]bool{}
		wrapperHelpNamed := false
		if !isRoot && cfg.Wrapper && r.Chance(1, 6) {
			c.Unset = true
			c.Unknown = 2
			if p.Help != "" && r.Chance(1, 4) {
				wrapperHelpNamed = true // the wrapper declares an ordinary flag of its own that is named like the help flag
			}
		} else {
			for k := range inherited {
				taken[k] = true
			}
		}
		if p.Help != "" {
			taken[p.Help] = true
			for _, a := range p.HelpAliases {
				taken[a] = true
			}
		}
		if !isRoot && !c.Unset && cfg.CmdModes && r.Chance(1, 5) {
			c.Unknown = cfg.Unknowns[r.Intn(len(cfg.Unknowns))]
		}
		if !isRoot && cfg.ReqOrder && r.Chance(1, 5) {
			c.ReqOrder = true // require-order set on a command only (wrapper style)
		}
		if !isRoot {
			c.Desc = fmt.Sprintf("desc-%s-%d", name, depth)
		}
		rng := cfg.CmdOpts
		if isRoot {
			rng = cfg.RootOpts
		}
		n := r.Range(rng[0], rng[1])
		if isRoot && n < len(cfg.ForceKinds) {
			n = len(cfg.ForceKinds)
		}
		for i := 0; i < n; i++ {
			o := &Opt{ID: id, Kind: cfg.Kinds[r.Intn(len(cfg.Kinds))]}
			if isRoot && i < len(cfg.ForceKinds) {
				o.Kind = cfg.ForceKinds[i]
			}
			id++
			o.Name = ng.optName(taken)
			taken[o.Name] = true
			na := 0
			if cfg.Aliases > 0 {
				na = r.Weighted([]int{4, 3, 2, 1}[:cfg.Aliases+1])
			}
			for j := 0; j < na; j++ {
				a := ng.optName(taken)
				taken[a] = true
				o.Aliases = append(o.Aliases, a)
			}
			o.UseVar = r.Bool()
			o.AliasSplit = r.Chance(1, 3)
			switch o.Kind {
			case KBool:
				o.DefB = r.Chance(1, 3)
			case KIncr, KInt, KIntOpt:
				o.DefI = []int{0, 0, 1, -3, 42, 1000}[r.Intn(6)]
			case KString, KStringOpt:
				o.DefS = []string{"", "", "dflt", "d e", "-x"}[r.Intn(5)]
			case KFloat, KFloatOpt:
				o.DefF = []float64{0, 0, 1.5, -2.25, 1e10}[r.Intn(5)]
			case KStrings, KInts, KFloats, KMap:
				o.Min = r.Range(1, 2)
				o.Max = r.Range(o.Min, cfg.MaxMulti)
			}
			o.Desc = fmt.Sprintf("D%dD", o.ID)
			// slice, map and increment options can be bound too: GetEnv is documented as a no-op for them
			if cfg.Env > 0 && r.Intn(100) < cfg.Env && (o.Kind == KBool || o.Kind.IsScalar() || o.Kind.IsOptional() || ((o.Kind.IsMulti() || o.Kind == KIncr) && o.ID%2 == 1)) {
				o.Env = fmt.Sprintf("VERIF_E%d", o.ID)
				switch r.Intn(4) {
				case 0: // unset
				case 1:
					o.EnvSet, o.EnvVal = true, ""
				default:
					o.EnvSet = true
					switch {
					case o.Kind == KMap:
						o.EnvVal = "envk=envv"
					case o.Kind == KIncr:
						o.EnvVal = "3"
					case o.Kind == KBool:
						o.EnvVal = r.Pick([]string{"true", "false", "TRUE", "False", "tRuE"})
					case o.Kind.IsInt():
						o.EnvVal = strconv.Itoa(r.Range(-50, 5000))
					case o.Kind.IsFloat():
						o.EnvVal = r.Pick([]string{"2.5", "-0.125", "1e3", "7"})
					default:
						o.EnvVal = r.Pick([]string{"envtext", "e v", "-e", "--", "é=1"})
					}
				}
			}
			if cfg.Required > 0 && r.Intn(100) < cfg.Required {
				o.Required = true
				if r.Bool() {
					o.ReqMsg = fmt.Sprintf("custom-msg-%d!", o.ID)
					if r.Chance(1, 3) {
						o.ReqMsg = fmt.Sprintf("need 100%% of %%s --opt%d (50%%)", o.ID)
					}
				}
			}
			if cfg.Suggested > 0 && len(o.Valid) == 0 && (o.Kind.IsStr() || o.Kind == KInt) && r.Intn(100) < cfg.Suggested {
				o.Suggested = []string{"sugb", "suga", "7"} // hints for completion only: any other value is still accepted
			}
			if cfg.Valid > 0 && o.Env == "" && (o.Kind == KString || o.Kind == KStringOpt || o.Kind == KStrings) && r.Intn(100) < cfg.Valid {
				o.Valid = []string{"va" + strconv.Itoa(o.ID), "vb", "v c"}
				o.ValidSplit = o.ID%3 == 1
			}
			if cfg.SetCalled > 0 && r.Intn(100) < cfg.SetCalled {
				o.SetCalled = true
			}
			c.Opts = append(c.Opts, o)
		}
		if wrapperHelpNamed {
			o := &Opt{ID: id, Kind: KBool, Name: p.Help, Desc: fmt.Sprintf("D%dD", id)}
			id++
			c.Opts = append(c.Opts, o)
		}
		if cfg.LonesomeDash && isRoot && r.Chance(1, 4) && !taken["-"] {
			o := &Opt{ID: id, Kind: KBool, Name: "-"}
			id++
			taken["-"] = true
			c.Opts = append(c.Opts, o)
		}
		if depth < cfg.MaxDepth {
			nf := r.Range(0, cfg.MaxFan)
			if isRoot && nf == 0 && r.Chance(2, 3) {
				nf = 1
			}
			used := map[string]bool{}
			if p.Help != "" {
				used[p.Help] = true
			}
			for i := 0; i < nf; i++ {
				cn := r.Pick(cmdNames)
				if used[cn] {
					continue
				}
				used[cn] = true
				c.Cmds = append(c.Cmds, genCmd(cn, depth+1, taken, false))
			}
		}
		if len(c.Cmds) > 1 && cfg.LateOpts > 0 && lateOptionsAccepted() && r.Intn(100) < cfg.LateOpts/2 {
			// an option declared between two commands of its level: creating the next command copies it down the whole subtree
			k := []Kind{KBool, KString, KInt}[r.Intn(3)]
			o := &Opt{ID: id, Kind: k, Name: fmt.Sprintf("i%di", id), Mid: true, UseVar: r.Bool(), Desc: fmt.Sprintf("D%dD", id)}
			id++
			c.Opts = append(c.Opts, o)
		}
		if p.Help != "" && len(c.Cmds) > 0 && cfg.LateOpts > 0 && lateOptionsAccepted() && r.Intn(100) < cfg.LateOpts {
			// an option declared after the commands of its level (names outside the ordinary alphabets: no clash below)
			k := []Kind{KBool, KString, KInt, KStrings}[r.Intn(4)]
			o := &Opt{ID: id, Kind: k, Name: fmt.Sprintf("j%dj", id), Late: true, UseVar: r.Bool(), Desc: fmt.Sprintf("D%dD", id)}
			if r.Bool() {
				o.Aliases = []string{fmt.Sprintf("J%d", id)}
			}
			if k == KStrings {
				o.Min, o.Max = 1, 1+r.Intn(2)
			}
			id++
			c.Opts = append(c.Opts, o)
		}
		return c
	}
	p.Root = genCmd("", 0, map[string]bool{}, true)
	return p
}

// ---------------------------------------------------------------------------------------------
// Payloads.

// Payloads - source of unique value / positional / unknown-option texts.
type Payloads struct {
	r *Rng
	n int
}

func NewPayloads(r *Rng) *Payloads { return &Payloads{r: r, n: r.Range(10, 99)} }

func (p *Payloads) next() int { p.n += p.r.Range(1, 7); return p.n }

// Pos - a plain positional token.
func (p *Payloads) Pos() string { return "p" + strconv.Itoa(p.next()) }

// Str - unique string value.
func (p *Payloads) Str() string { return "v" + strconv.Itoa(p.next()) }

// Int - unique well-formed int text.
func (p *Payloads) Int() string {
	n := p.next()
	return strconv.Itoa(n)
}

// Float - unique well-formed float text that is not a valid int.
func (p *Payloads) Float() string { return strconv.Itoa(p.next()) + ".5" }

// KV - unique key=value text.
func (p *Payloads) KV() string {
	n := p.next()
	return "K" + strconv.Itoa(n) + "=w" + strconv.Itoa(n)
}

// ValueFor - unique well-formed plain value for an option kind.
func (p *Payloads) ValueFor(k Kind) string {
	switch {
	case k.IsInt():
		return p.Int()
	case k.IsFloat():
		return p.Float()
	case k == KMap:
		return p.KV()
	}
	return p.Str()
}

var unkLetters = []string{"x", "y", "z", "ñ", "x", "y", "z", "2", "7"} // digits: `-2` is an unknown option, not a negative number

// UnkName - candidate unknown option name (caller checks it against the level).
func (p *Payloads) UnkName(long bool) string {
	n := p.r.Pick(unkLetters)
	if long || p.r.Chance(2, 3) {
		n += p.r.Pick(unkLetters) + strconv.Itoa(p.next())
	}
	return n
}

// FirstRune of s.
func FirstRune(s string) string {
	_, sz := utf8.DecodeRuneInString(s)
	return s[:sz]
}

// RuneCount of s.
func RuneCount(s string) int { return utf8.RuneCountInString(s) }

// Runes - s split into its UTF-8 sequences (invalid bytes one by one), as strings.Split(s, "") does.
func Runes(s string) []string { return strings.Split(s, "") }

var lateProbe struct {
	done bool
	ok   bool
}

// lateOptionsAccepted - the documentation asks for options to be declared before the commands of their level; the pinned
// library accepts the other order and copies such options down on the next NewCommand/HelpCommand. The generators use
// that order only when a probe shows the library under test (still) accepts and honours it, so that a library that
// enforces the documented order is not reported.
func lateOptionsAccepted() bool {
	if lateProbe.done {
		return lateProbe.ok
	}
	lateProbe.done = true
	late := &Opt{ID: 1, Kind: KBool, Name: "j1j", Late: true}
	mid := &Opt{ID: 2, Kind: KBool, Name: "i2i", Mid: true}
	p := &Prog{Help: "help", Root: &Cmd{Unknown: -1, HasFn: true, Opts: []*Opt{{ID: 0, Kind: KBool, Name: "a"}, late, mid},
		Cmds: []*Cmd{{Name: "c", Unknown: -1, HasFn: true, Cmds: []*Cmd{{Name: "d", Unknown: -1, HasFn: true}}}, {Name: "e", Unknown: -1, HasFn: true}}}}
	oc := Run(p, []string{"c", "d", "--j1j", "--i2i"}, false)
	lateProbe.ok = oc.Panic == "" && !oc.HasErr && oc.Opts["c/d|j1j"].Called && oc.Opts["c/d|i2i"].Called
	return lateProbe.ok
}
