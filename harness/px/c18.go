package px

import (
	"fmt"
	"sort"
	"strconv"
	"strings"

	"github.com/DavidGamba/go-getoptions/text"

	"verif/fw"
)

// C18 - generated help lists every option, alias, argument and command exactly once.

func c18Prog(r *Rng, idx int) *Prog {
	id := 0
	letters := strings.Split("abdefgijlmnopqrstuvwyz", "")
	r.Shuffle(len(letters), func(i, j int) { letters[i], letters[j] = letters[j], letters[i] })
	nextLetter := 0
	mkOpts := func(n int, forced []Kind) []*Opt {
		var out []*Opt
		for i := 0; i < n; i++ {
			k := Kind(r.Intn(int(NKinds)))
			if i < len(forced) {
				k = forced[i]
			}
			o := &Opt{ID: id, Kind: k, Name: fmt.Sprintf("k%dq", id), UseVar: r.Bool()}
			id++
			for j := r.Weighted([]int{3, 3, 2, 1}); j > 0; j-- {
				if r.Chance(1, 3) && nextLetter < len(letters) {
					o.Aliases = append(o.Aliases, letters[nextLetter])
					nextLetter++
				} else {
					o.Aliases = append(o.Aliases, fmt.Sprintf("a%dx%dz", o.ID, j))
				}
			}
			o.AliasSplit = r.Bool()
			switch {
			case k == KBool:
				o.DefB = r.Bool()
			case k == KIncr || k.IsInt() && !k.IsMulti():
				o.DefI = []int{0, 7, -3, 12345}[r.Intn(4)]
			case k == KString || k == KStringOpt:
				o.DefS = []string{"", "dflt" + strconv.Itoa(o.ID), "two words", `C:\tmp\out`, `say "hi"`, "tab\there", "100% é"}[r.Intn(7)]
			case k == KFloat || k == KFloatOpt:
				o.DefF = []float64{0, 1.5, -2.25}[r.Intn(3)]
			case k.IsMulti():
				o.Min = r.Range(1, 2)
				o.Max = r.Range(o.Min, 3)
			}
			if r.Chance(1, 3) {
				o.Required = true
				if r.Bool() {
					o.ReqMsg = "need " + o.Name
				}
			}
			if r.Chance(1, 3) && (k == KBool || k.IsScalar() || k.IsOptional()) {
				o.Env = fmt.Sprintf("VERIF_H%dE", o.ID)
			}
			switch r.Intn(4) {
			case 0:
			case 1:
				o.Desc = fmt.Sprintf("DESC-%s-END", o.Name)
				if r.Chance(1, 3) {
					o.Desc = fmt.Sprintf("DESC-%s 50%% of 100%%s-END", o.Name)
				}
			case 2:
				o.Desc = fmt.Sprintf("DESC-%s-line1\nline2 of %s\nline3-END", o.Name, o.Name)
			case 3:
				o.Desc = fmt.Sprintf("DESC-%s-END", o.Name)
				o.ArgName = "arg" + strconv.Itoa(o.ID)
			}
			if r.Chance(1, 12) && k != KBool {
				// an entry wider than the 80 columns the synopsis wraps at
				o.ArgName = "arg" + strconv.Itoa(o.ID) + strings.Repeat("x", 70+r.Intn(40))
			}
			if r.Chance(1, 15) {
				for j := 0; j < 5; j++ {
					o.Aliases = append(o.Aliases, fmt.Sprintf("a%dlong%sx%dz", o.ID, strings.Repeat("w", 12), j+10))
				}
			}
			out = append(out, o)
		}
		return out
	}
	// every kind appears at the root once per 12 consecutive cases (stratified), plus random ones
	forced := []Kind{Kind(idx % int(NKinds)), Kind((idx/12 + 5) % int(NKinds))}
	cid := 0
	var mkCmd func(depth int) *Cmd
	mkCmd = func(depth int) *Cmd {
		cid++
		c := &Cmd{Name: fmt.Sprintf("c%dm", cid), Unknown: -1, HasFn: true}
		c.Desc = fmt.Sprintf("CDESC-%s-END", c.Name)
		if r.Chance(1, 4) {
			c.Desc = fmt.Sprintf("CDESC-%s-l1\nl2-END", c.Name)
		}
		if r.Chance(1, 5) {
			c.Desc = fmt.Sprintf("CDESC-%s by 50%% of 100%%d-END", c.Name)
		}
		if r.Chance(1, 8) {
			c.Unset = true
			c.Unknown = 2
		}
		c.Opts = mkOpts(r.Range(0, 3), nil)
		if r.Chance(1, 2) {
			// every mixture of described and undescribed arguments, in both orders
			n := strconv.Itoa(cid)
			switch r.Intn(6) {
			case 0:
				c.SynArgs = [][2]string{{"<file" + n + ">", "ARGDESC-" + n}}
			case 1:
				c.SynArgs = [][2]string{{"<file" + n + ">", "ARGDESC-" + n}, {"[<more" + n + ">]", ""}}
			case 2:
				c.SynArgs = [][2]string{{"<src" + n + ">", ""}, {"<dst" + n + ">", "ARGDESC-dst-" + n}}
			case 3:
				c.SynArgs = [][2]string{{"<a" + n + ">", ""}, {"<b" + n + ">", ""}, {"<c" + n + ">", "ARGDESC-c-" + n + "\nsecond line"}}
			case 4:
				c.SynArgs = [][2]string{{"<only" + n + ">", ""}}
			case 5:
				c.SynArgs = [][2]string{{"<x" + n + ">", "ARGDESC-x-" + n}, {"<y" + n + ">", "ARGDESC-y-" + n}}
			}
		}
		if depth < 2 {
			for i := r.Range(0, 2); i > 0; i-- {
				c.Cmds = append(c.Cmds, mkCmd(depth+1))
			}
		}
		return c
	}
	root := &Cmd{Unknown: -1, HasFn: true, Opts: mkOpts(r.Range(2, 6), forced)}
	for i := r.Range(0, 3); i > 0; i-- {
		root.Cmds = append(root.Cmds, mkCmd(1))
	}
	if r.Chance(1, 3) {
		root.SynArgs = [][2]string{{"<input>", "ARGDESC-root"}}
	}
	p := &Prog{Mode: r.Intn(3), Unknown: 0, Help: "help", Root: root}
	if r.Chance(1, 3) {
		p.HelpAliases = [][]string{{"?"}, {"hh", "?"}, {"H"}}[r.Intn(3)]
	}
	if r.Bool() {
		p.SelfName, p.SelfDesc = "prog"+strconv.Itoa(idx%7), "SELFDESC-END"
	}
	if idx%7 == 3 {
		p.Help, p.HelpAliases = "", nil // a program without the help command (own --help handling, Help() only)
	}
	return p
}

func spell(k string) string {
	if k == "-" {
		return "-"
	}
	if len(k) == 1 {
		return "-" + k
	}
	return "--" + k
}

type helpEntry struct {
	section string
	aliases []string
	text    string
}

// section headers as exported by the library's text package (a renamed header is not a defect)
var helpHeaders = map[string]string{
	text.HelpNameHeader + ":": "NAME", text.HelpSynopsisHeader + ":": "SYNOPSIS", text.HelpCommandsHeader + ":": "COMMANDS",
	text.HelpArgumentsHeader + ":": "ARGUMENTS", text.HelpRequiredOptionsHeader + ":": "REQUIRED PARAMETERS", text.HelpOptionsHeader + ":": "OPTIONS",
}

// parseHelp - sections and entries (an entry starts at a line with exactly one indentation step).
func parseHelp(text string) (sections map[string]string, entries []helpEntry) {
	sections = map[string]string{}
	cur := ""
	var e *helpEntry
	flush := func() {
		if e != nil {
			entries = append(entries, *e)
			e = nil
		}
	}
	for _, line := range strings.Split(text, "\n") {
		if h, ok := helpHeaders[line]; ok {
			flush()
			cur = h
			continue
		}
		sections[cur] += line + "\n"
		if cur != "OPTIONS" && cur != "REQUIRED PARAMETERS" && cur != "COMMANDS" && cur != "ARGUMENTS" {
			continue
		}
		if strings.HasPrefix(line, "    ") && len(line) > 4 && line[4] != ' ' {
			flush()
			e = &helpEntry{section: cur, text: line}
			first := strings.Fields(line)[0]
			for _, a := range strings.Split(first, "|") {
				e.aliases = append(e.aliases, a)
			}
		} else if e != nil {
			e.text += "\n" + line
		}
	}
	flush()
	return
}

func defaultTexts(o *Opt) []string {
	switch {
	case o.Kind == KBool:
		return []string{strconv.FormatBool(o.DefB)}
	case o.Kind == KIncr || o.Kind == KInt || o.Kind == KIntOpt:
		return []string{strconv.Itoa(o.DefI)}
	case o.Kind == KString || o.Kind == KStringOpt:
		return []string{o.DefS}
	case o.Kind == KFloat || o.Kind == KFloatOpt:
		return []string{fmt.Sprintf("%f", o.DefF), fmt.Sprintf("%v", o.DefF)}
	case o.Kind == KMap:
		return []string{"{}", "map[]"}
	}
	return []string{"[]"}
}

// checkHelp - the structural counter for one level.
func checkHelp(t *Tree, n *Node, text string) []string {
	var d []string
	sections, entries := parseHelp(text)
	syn := sections["SYNOPSIS"]
	// options
	type want struct {
		o    *Opt
		keys []string
	}
	nOptEntries := 0
	for _, e := range entries {
		if e.section == "OPTIONS" || e.section == "REQUIRED PARAMETERS" {
			nOptEntries++
		}
	}
	if nOptEntries != len(n.Visible) {
		d = append(d, fmt.Sprintf("%d option entries for %d options available at the level", nOptEntries, len(n.Visible)))
	}
	for _, o := range n.Visible {
		var keys []string
		for _, k := range o.Keys() {
			keys = append(keys, spell(k))
		}
		sort.Strings(keys)
		var found []helpEntry
		for _, e := range entries {
			if e.section != "OPTIONS" && e.section != "REQUIRED PARAMETERS" {
				continue
			}
			a := append([]string{}, e.aliases...)
			sort.Strings(a)
			if eqStrs(a, keys) {
				found = append(found, e)
			}
		}
		if len(found) != 1 {
			d = append(d, fmt.Sprintf("option %s with aliases %v has %d entries in the option lists, expected exactly one", o.Name, keys, len(found)))
			continue
		}
		e := found[0]
		if (e.section == "REQUIRED PARAMETERS") != o.Required {
			d = append(d, fmt.Sprintf("option %s (required=%v) is listed under %q", o.Name, o.Required, e.section))
		}
		if !o.Required {
			ok := false
			for _, dt := range defaultTexts(o) {
				if strings.Contains(e.text, "default: "+dt) || strings.Contains(e.text, "default: \""+dt+"\"") {
					ok = true
				}
			}
			if !ok {
				d = append(d, fmt.Sprintf("entry of option %s does not show its default %v: %q", o.Name, defaultTexts(o), e.text))
			}
		}
		if o.Env != "" && !strings.Contains(e.text, o.Env) {
			d = append(d, fmt.Sprintf("entry of option %s does not show its environment variable %s: %q", o.Name, o.Env, e.text))
		}
		if o.Desc != "" {
			for _, l := range strings.Split(o.Desc, "\n") {
				if !strings.Contains(e.text, l) {
					d = append(d, fmt.Sprintf("entry of option %s lacks description line %q", o.Name, l))
				}
			}
		}
		// synopsis
		sp := spell(o.Name)
		i := strings.Index(syn, sp+"|")
		if i < 0 {
			i = strings.Index(syn, sp+" ")
		}
		if i < 0 {
			i = strings.Index(syn, sp+"]")
		}
		if i < 0 {
			i = strings.Index(syn, sp+">")
		}
		if i < 0 {
			i = strings.Index(syn, sp+"\n")
		}
		if i < 0 {
			d = append(d, fmt.Sprintf("option %s (%s) is not mentioned in the synopsis %q", o.Name, o.Kind, strings.TrimSpace(syn)))
			continue
		}
		bracketed := i > 0 && syn[i-1] == '['
		if bracketed == o.Required {
			d = append(d, fmt.Sprintf("option %s required=%v but bracketed=%v in the synopsis", o.Name, o.Required, bracketed))
		}
		if strings.Count(syn, sp+"|")+strings.Count(syn, sp+" ")+strings.Count(syn, sp+"]")+strings.Count(syn, sp+">")+strings.Count(syn, sp+"\n") != 1 {
			d = append(d, fmt.Sprintf("option %s is mentioned more than once in the synopsis", o.Name))
		}
	}
	// commands
	nCmd := 0
	for _, e := range entries {
		if e.section == "COMMANDS" {
			nCmd++
		}
	}
	wantCmds := 0
	for name, c := range n.Children {
		if c.IsHelp {
			continue
		}
		wantCmds++
		cnt := 0
		for _, e := range entries {
			if e.section == "COMMANDS" && len(e.aliases) == 1 && e.aliases[0] == name {
				cnt++
				for _, l := range strings.Split(c.Cmd.Desc, "\n") {
					if !strings.Contains(e.text, l) {
						d = append(d, fmt.Sprintf("command %s entry lacks its description line %q", name, l))
					}
				}
			}
		}
		if cnt != 1 {
			d = append(d, fmt.Sprintf("subcommand %s is listed %d times under COMMANDS", name, cnt))
		}
	}
	if nCmd != wantCmds {
		d = append(d, fmt.Sprintf("%d entries under COMMANDS for %d subcommands (help excluded)", nCmd, wantCmds))
	}
	// arguments with a description
	for _, a := range n.Cmd.SynArgs {
		if !strings.Contains(syn, a[0]) {
			d = append(d, fmt.Sprintf("argument %s not in the synopsis", a[0]))
		}
		if a[1] != "" && len(n.Cmd.SynArgs) >= 1 {
			cnt := 0
			for _, e := range entries {
				if e.section == "ARGUMENTS" && len(e.aliases) > 0 && e.aliases[0] == a[0] && strings.Contains(e.text, strings.Split(a[1], "\n")[0]) {
					cnt++
				}
			}
			if cnt != 1 {
				d = append(d, fmt.Sprintf("argument %s with description is listed %d times under ARGUMENTS", a[0], cnt))
			}
		}
	}
	return d
}

func init() {
	fw.Register(&fw.Check{
		ID:        "C18",
		Technique: "runtime monitor: structural counter over the sections/entries of the help text produced by the real library (option lists, required section, defaults, env, synopsis, commands) + three-way equality of the text obtained through help option, help command and Help()",
		Rule: "case = program with all 12 option kinds stratified (2 forced kinds per case), 0-3 aliases (long and one-letter), required/optional, env binding, single/multi-line descriptions, argument names, synopsis args, command tree depth<=3 with wrappers; every level of the tree is checked; names are generated so that none is a substring of another; " +
			"distinct = (kinds/aliases/required/env shape of the level); non-trivial = the level has at least 2 options",
		Cases: func(tier string) int { return tierN(tier, 6000, 600000) },
		Run: func(seed uint64, idx int, tier string) *fw.Result {
			r := CaseRng(seed, "C18", idx)
			p := c18Prog(r, idx)
			t := Resolve(p)
			res := &fw.Result{Sample: &CaseDoc{Prog: p, Note: "help of every level, three routes"}}
			paths := make([]string, 0, len(t.Nodes))
			for path, n := range t.Nodes {
				if !n.IsHelp {
					paths = append(paths, path)
				}
			}
			sort.Strings(paths)
			sig := ""
			for _, path := range paths {
				n := t.Nodes[path]
				var toks []string
				if path != "" {
					toks = strings.Split(path, "/")
				}
				hText := refHelp(p, toks)
				res.Execs++
				doc := &CaseDoc{Prog: p, Argv: toks, Note: "level " + path, Extra: map[string]string{"help": hText}}
				if d := checkHelp(t, n, hText); len(d) > 0 {
					return viol("help structure at level \""+path+"\"", d, doc)
				}
				res.Events += len(n.Visible) + len(n.Children)
				if p.Help == "" {
					for _, o := range n.Visible {
						res.Cells = append(res.Cells, fmt.Sprintf("%s|aliases=%d|required=%v|env=%v", o.Kind, len(o.Aliases), o.Required, o.Env != ""))
						sig += fmt.Sprintf("%s%d%v%v,", o.Kind, len(o.Aliases), o.Required, o.Env != "")
					}
					sig += "/nohelp/"
					continue
				}
				// route 2: help command
				b := Build(p)
				oc := b.RunParse(append(append([]string{}, toks...), "help"))
				if !oc.HasErr {
					b.RunDispatch(oc, "m")
				}
				b.Cleanup()
				res.Execs++
				if oc.HasErr || !oc.DispHelp || oc.DispWriter != hText {
					doc.Got = oc
					return viol("help routes at level \""+path+"\"", []string{fmt.Sprintf("help command gives a different text than Help() (parse err %q, dispatch err %q)", oc.Err, oc.DispErr)}, doc)
				}
				// route 1: help option (not inside wrappers)
				if n.HasHelpOpt() {
					b := Build(p)
					oc := b.RunParse(append(append([]string{}, toks...), "--help"))
					if !oc.HasErr {
						b.RunDispatch(oc, "m")
					}
					b.Cleanup()
					res.Execs++
					if oc.HasErr || !oc.DispHelp || oc.DispWriter != hText {
						doc.Got = oc
						return viol("help routes at level \""+path+"\"", []string{fmt.Sprintf("help option gives a different text than Help() (parse err %q, dispatch err %q)", oc.Err, oc.DispErr)}, doc)
					}
				}
				for _, o := range n.Visible {
					res.Cells = append(res.Cells, fmt.Sprintf("%s|aliases=%d|required=%v|env=%v", o.Kind, len(o.Aliases), o.Required, o.Env != ""))
					sig += fmt.Sprintf("%s%d%v%v,", o.Kind, len(o.Aliases), o.Required, o.Env != "")
				}
				sig += "/"
			}
			seen := map[string]bool{}
			var cells []string
			for _, c := range res.Cells {
				if !seen[c] {
					seen[c] = true
					cells = append(cells, c)
				}
			}
			res.Cells = cells
			if len(t.Root.Visible) >= 2 {
				res.Sig = sig
			}
			return res
		},
	})
}
