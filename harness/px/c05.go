package px

import (
	"fmt"
	"strings"

	"verif/fw"
)

// C05 - abbreviations: unique prefix = full name, exact name wins, ambiguity errors.

func c05Prog(r *Rng, mode int) *Prog {
	taken := map[string]bool{"w": true}
	helpName, helpAliases := "", []string(nil)
	if r.Chance(1, 3) {
		// a help command whose flag has aliases: they are keys of every level like any other
		helpName, helpAliases = "help", [][]string{{"h"}, {"?", "h"}, {"he", "?"}}[r.Intn(3)]
		taken["help"] = true
		for _, a := range helpAliases {
			taken[a] = true
		}
	}
	al := []string{"a", "b", "a", "b", "é"}
	name := func() string {
		for {
			l := r.Weighted([]int{0, 3, 4, 4, 2})
			n := ""
			for i := 0; i < l; i++ {
				n += r.Pick(al)
			}
			if r.Chance(1, 6) {
				n = r.Pick([]string{"v", "ve", "ver", "verb", "verbose", "version", "h", "he", "help"})
			}
			if !taken[n] {
				taken[n] = true
				return n
			}
		}
	}
	id := 1
	mk := func(n int) []*Opt {
		var out []*Opt
		for i := 0; i < n; i++ {
			o := &Opt{ID: id, Kind: []Kind{KBool, KIncr, KString, KInt, KStringOpt, KStrings}[r.Intn(6)], Name: name(), UseVar: r.Bool()}
			id++
			for j := r.Weighted([]int{3, 2, 1}); j > 0; j-- {
				o.Aliases = append(o.Aliases, name())
			}
			if o.Kind == KStrings {
				o.Min, o.Max = 1, 1
			}
			out = append(out, o)
		}
		return out
	}
	var family []*Opt
	if r.Chance(1, 8) {
		// a large family of names sharing a prefix: the ambiguity error must list every one of them
		for i := r.Range(17, 40); i > 0; i-- {
			family = append(family, &Opt{ID: id, Kind: KBool, Name: fmt.Sprintf("zq%02d", i)})
			id++
		}
	}
	w := &Opt{ID: 0, Kind: KBool, Name: "w"}
	root := &Cmd{Unknown: -1, HasFn: true, Opts: append(append([]*Opt{w}, mk(r.Range(2, 5))...), family...)}
	root.Cmds = []*Cmd{{Name: "cmd", Unknown: -1, HasFn: true, Opts: mk(r.Range(1, 4))}}
	return &Prog{Mode: mode, Unknown: 0, Root: root, Help: helpName, HelpAliases: helpAliases}
}

func init() {
	fw.Register(&fw.Check{
		ID:             "C05",
		ExhaustivePart: "within each generated name set: every key x every prefix x every spelling of the mode, at both levels",
		Technique:      "runtime monitor: classification oracle from the declared key set of the level (exact / unique prefix / ambiguous) over real Parse executions of EVERY prefix of EVERY key, metamorphic equality with the full-name spelling, state-unchanged check on ambiguity",
		Rule: "case = adversarial name set (names and aliases over a 2-3 letter alphabet so that they prefix each other, single letters, multibyte) at the root and inside a command (inherited + own keys in one table); every key x every prefix is executed in long spelling, and in the mode's single-dash spelling where that spelling denotes one option name; " +
			"distinct = (mode, level, sorted key set); non-trivial = the key set yields at least one ambiguous prefix and one proper unique prefix",
		Cases: func(tier string) int { return tierN(tier, 1000, 150000) },
		Run: func(seed uint64, idx int, tier string) *fw.Result {
			r := CaseRng(seed, "C05", idx)
			mode := idx % 3
			p := c05Prog(r, mode)
			t := Resolve(p)
			res := &fw.Result{Sample: &CaseDoc{Prog: p, Note: "every prefix of every key at both levels"}}
			nAmb, nUniq, nExact := 0, 0, 0
			for _, path := range []string{"", "cmd"} {
				node := t.Nodes[path]
				var pre []string
				if path != "" {
					pre = []string{"cmd"}
				}
				kt := node.KeyTable()
				for _, k := range node.SortedKeys() {
					rs := Runes(k)
					for n := 1; n <= len(rs); n++ {
						pfx := strings.Join(rs[:n], "")
						rk, ro, amb := node.ResolveKey(pfx)
						spellings := []string{"--" + pfx}
						switch mode {
						case 0:
							spellings = append(spellings, "-"+pfx)
						case 1, 2:
							if n == 1 {
								spellings = append(spellings, "-"+pfx)
							}
						}
						for _, sp := range spellings {
							argv := append(append([]string{}, pre...), "--w", sp)
							full := ""
							if ro != nil {
								full = "--" + rk
								if ro.Kind.IsScalar() || ro.Kind == KStrings {
									v := "val7"
									if ro.Kind == KInt {
										v = "77"
									}
									argv = append(argv, v)
								}
							}
							oc := Run(p, argv, false)
							res.Execs++
							res.Events++
							doc := &CaseDoc{Prog: p, Argv: argv, Note: fmt.Sprintf("level %q key %q prefix %q", path, k, pfx)}
							if oc.Panic != "" {
								doc.Got = oc
								return viol("abbreviation", []string{"panic: " + oc.Panic}, doc)
							}
							switch {
							case amb != nil:
								nAmb++
								if !oc.HasErr {
									doc.Got = oc
									return viol("ambiguous prefix", []string{fmt.Sprintf("prefix %q matches %v but Parse succeeded", pfx, amb)}, doc)
								}
								for _, c := range amb {
									if !strings.Contains(oc.Err, c) {
										doc.Got = oc
										return viol("ambiguous prefix", []string{fmt.Sprintf("error %q does not list candidate %q (all: %v)", oc.Err, c, amb)}, doc)
									}
								}
								// an ambiguous prefix is an error under require-order too (it is not "the first non-option")
								{
									pro := *p
									pro.ReqOrder = true
									ocr := Run(&pro, argv, false)
									res.Execs++
									if !ocr.HasErr {
										doc.Got = ocr
										doc.Prog = &pro
										return viol("ambiguous prefix", []string{fmt.Sprintf("with require-order the ambiguous prefix %q (matches %v) was accepted silently, remaining %q", pfx, amb, ocr.Remaining)}, doc)
									}
								}
								// no option value changed because of it: state equals the state of the argv cut before the token
								cut := Run(p, argv[:len(argv)-1], false)
								res.Execs++
								if x, y := optState(oc), optState(cut); !eqStrs(x, y) {
									doc.Got = oc
									return viol("ambiguous prefix", []string{fmt.Sprintf("option state changed by an ambiguous token: %v", listDiff(x, y))}, doc)
								}
							case ro != nil:
								if pfx == rk {
									nExact++
								} else {
									nUniq++
								}
								if oc.HasErr {
									doc.Got = oc
									return viol("unique prefix / exact name", []string{fmt.Sprintf("%q resolves to %q at this level but Parse failed: %s", pfx, rk, oc.Err)}, doc)
								}
								// absolute: the selected option is the one the key table says, CalledAs is the full key
								obs := oc.Opts[path+"|"+rk]
								if !obs.Called || obs.CalledAs != rk {
									doc.Got = oc
									return viol("unique prefix / exact name", []string{fmt.Sprintf("typed %q: Called(%q)=%v CalledAs=%q, expected called as %q", sp, rk, obs.Called, obs.CalledAs, rk)}, doc)
								}
								for k2, o2 := range kt {
									if o2 != ro && o2.Name != "w" && oc.Opts[path+"|"+k2].Called {
										doc.Got = oc
										return viol("unique prefix / exact name", []string{fmt.Sprintf("typed %q selected %q (option %s) instead of %q", sp, k2, o2.Name, rk)}, doc)
									}
								}
								// relational: same as the full-name spelling
								argvFull := append([]string{}, argv...)
								argvFull[len(pre)+1] = full
								ocF := Run(p, argvFull, false)
								res.Execs++
								if x, y := optState(oc), optState(ocF); !eqStrs(x, y) || !eqStrs(oc.Remaining, ocF.Remaining) || ocF.HasErr {
									doc.Got = oc
									doc.Extra = argvFull
									return viol("unique prefix / exact name", []string{fmt.Sprintf("typed %q differs from full name %q: %v", sp, full, listDiff(x, y))}, doc)
								}
								// value effect happened
								if DefaultEnc(ro) == obs.Val && ro.Kind != KStringOpt {
									doc.Got = oc
									return viol("unique prefix / exact name", []string{fmt.Sprintf("typed %q: option %q still has its default %s", sp, rk, obs.Val)}, doc)
								}
							}
						}
					}
				}
			}
			// the same typed text before and after the command token: each occurrence is resolved against the key table
			// of the level it is given at (inherited + own keys inside the command)
			{
				root, cmd := t.Nodes[""], t.Nodes["cmd"]
				mkItem := func(n *Node, pfx string, val string) (*Item, []string) {
					rk, ro, amb := n.ResolveKey(pfx)
					if ro == nil {
						return nil, amb
					}
					it := &Item{Opt: ro, OptID: ro.ID, Key: rk, Typed: pfx, Level: n.Path}
					switch {
					case ro.Kind.IsFlag():
						it.K = IFlag
						it.Tokens = []string{"--" + pfx}
					case ro.Kind == KStrings:
						it.K = IMulti
						it.Attached = true
						it.Vals = []string{val}
						it.Tokens = []string{"--" + pfx + "=" + val}
					default:
						it.K = IValued
						it.Attached = true
						if ro.Kind == KInt {
							val = "7" + fmt.Sprint(len(val))
						}
						it.Vals = []string{val}
						it.Tokens = []string{"--" + pfx + "=" + val}
					}
					return it, nil
				}
				seen := map[string]bool{}
				for _, k := range cmd.SortedKeys() {
					rs := Runes(k)
					for n := 1; n <= len(rs); n++ {
						pfx := strings.Join(rs[:n], "")
						if seen[pfx] {
							continue
						}
						seen[pfx] = true
						it1, _ := mkItem(root, pfx, "before")
						if it1 == nil {
							continue
						}
						it2, amb := mkItem(cmd, pfx, "afterx")
						sc := &Scenario{Prog: p, Items: []*Item{it1, {K: ICmd, Tok: "cmd", Tokens: []string{"cmd"}, Level: ""}}}
						if it2 != nil {
							sc.Items = append(sc.Items, it2)
							sc.Assemble()
						} else {
							sc.Assemble()
							sc.Argv = append(sc.Argv, "--"+pfx)
						}
						oc := Run(p, sc.Argv, false)
						res.Execs++
						res.Events++
						doc := &CaseDoc{Prog: p, Argv: sc.Argv, Note: fmt.Sprintf("typed %q before and after the command token", pfx)}
						if it2 == nil {
							if !oc.HasErr {
								doc.Got = oc
								return viol("same text at two levels", []string{fmt.Sprintf("%q is ambiguous inside the command (%v) but Parse succeeded", pfx, amb)}, doc)
							}
							for _, c := range amb {
								if !strings.Contains(oc.Err, c) {
									doc.Got = oc
									return viol("same text at two levels", []string{fmt.Sprintf("error %q does not list candidate %q", oc.Err, c)}, doc)
								}
							}
							res.Counters = addCounter(res.Counters, "two_level_ambiguous", 1)
							if mode == 1 && n == 1 && it1.K == IFlag {
								argvb := []string{"-w" + pfx, "cmd", "-w" + pfx}
								ocb := Run(p, argvb, false)
								res.Execs++
								if !ocb.HasErr {
									docb := &CaseDoc{Prog: p, Argv: argvb, Got: ocb}
									return viol("same letter in bundles at two levels", []string{fmt.Sprintf("letter %q is ambiguous inside the command (%v) but the bundle was accepted", pfx, amb)}, docb)
								}
							}
							continue
						}
						exp := Fold(t, sc)
						if d := Diff(t, oc, exp); len(d) > 0 {
							doc.Got, doc.Expect = oc, exp
							return viol("same text at two levels", d, doc)
						}
						if it1.Opt != it2.Opt || it1.Key != it2.Key {
							res.Counters = addCounter(res.Counters, "two_level_resolves_differently", 1)
						}
						// Bundling: the same letter inside a bundle in front of and behind the command token
						if mode == 1 && n == 1 && it1.K == IFlag && it2.K == IFlag {
							wItem := func(level string) *Item {
								return &Item{K: IFlag, Opt: p.Root.Opts[0], OptID: 0, Key: "w", Typed: "w", Short: true, Level: level}
							}
							scb := &Scenario{Prog: p, Items: []*Item{wItem(""), it1, {K: ICmd, Tok: "cmd", Tokens: []string{"cmd"}, Level: ""}, wItem("cmd"), it2}}
							scb.Argv = []string{"-w" + pfx, "cmd", "-w" + pfx}
							ocb := Run(p, scb.Argv, false)
							res.Execs++
							if d := Diff(t, ocb, Fold(t, scb)); len(d) > 0 {
								docb := &CaseDoc{Prog: p, Argv: scb.Argv, Got: ocb, Note: fmt.Sprintf("letter %q bundled in front of and behind the command token", pfx)}
								return viol("same letter in bundles at two levels", d, docb)
							}
						}
					}
				}
			}
			res.Cells = []string{fmt.Sprintf("mode=%s", modeNames[mode]), fmt.Sprintf("ambiguous>0=%v", nAmb > 0), fmt.Sprintf("uniqueprefix>0=%v", nUniq > 0)}
			res.Counters = addCounter(res.Counters, "ambiguous_prefix_executions", nAmb)
			res.Counters = addCounter(res.Counters, "unique_prefix_executions", nUniq)
			res.Counters = addCounter(res.Counters, "exact_name_executions", nExact)
			if nAmb > 0 && nUniq > 0 {
				res.Sig = fmt.Sprintf("%d|%v|%v", mode, t.Nodes[""].SortedKeys(), t.Nodes["cmd"].SortedKeys())
			}
			return res
		},
	})
}

func addCounter(m map[string]int, k string, n int) map[string]int {
	if m == nil {
		m = map[string]int{}
	}
	m[k] += n
	return m
}
