package px

import (
	"fmt"
	"strings"

	"verif/fw"
)

// C11 - required options are enforced before any command runs; help bypasses them.

// refHelp - Help() of an identically built program parked on the node reached by path tokens.
func refHelp(p *Prog, pathToks []string) string {
	b := Build(p)
	defer b.Cleanup()
	if len(pathToks) > 0 {
		func() {
			defer func() { recover() }()
			b.Opt.Parse(pathToks)
		}()
	}
	return b.Opt.Help()
}

func init() {
	fw.Register(&fw.Check{
		ID:             "C11",
		ExhaustivePart: "for each generated tree and target: every subset of the (<=4) required options x 6 help forms",
		Technique:      "runtime monitor: required-set rule and help-bypass rule over instrumented CommandFns, errors.Is and Writer content of real Parse+Dispatch executions; help text compared with Help() of an identically built program parked on the level",
		Rule: "case = tree with required options (own/inherited, custom message or not, env-bound) x target command x EVERY subset of the (<=4) required options visible there supplied by name/alias/abbreviation/env x help {not requested (x3), help option (any alias-free abbreviation, any level of the path), help command, help <topic>, help <unknown topic>}; " +
			"distinct = (tree shape, target, subset, help form); non-trivial = at least one required option is visible at the target" + genDims,
		Cases: func(tier string) int { return tierN(tier, 16*6*600, 16*6*25000) },
		Run: func(seed uint64, idx int, tier string) *fw.Result {
			subset := idx % 16
			helpMode := (idx / 16) % 6
			r := CaseRng(seed, "C11", idx/96)
			pc := DefaultCfg()
			pc.Required = 40
			pc.Env = 15
			pc.Help = true
			pc.MaxDepth = 2
			pc.FnLess = true
			pc.Kinds = []Kind{KBool, KIncr, KString, KInt, KFloat, KStringOpt, KStrings, KInts, KMap}
			pc.Modes = []int{r.Intn(3)}
			pc.Unknowns = []int{0}
			p := GenProg(r, pc)
			p.Help = "help"
			t := Resolve(p)
			// target path
			var pathToks []string
			node := t.Root
			for d := r.Range(0, 2); d > 0; d-- {
				var cs []string
				for n, c := range node.Children {
					if !c.IsHelp {
						cs = append(cs, n)
					}
				}
				if len(cs) == 0 {
					break
				}
				sortStrings(cs)
				c := r.Pick(cs)
				pathToks = append(pathToks, c)
				node = node.Children[c]
			}
			target := node
			// at most 4 required options visible at the target
			var req []*Opt
			for _, o := range target.Visible {
				if o.Required {
					if len(req) == 4 {
						o.Required = false
						continue
					}
					req = append(req, o)
				}
			}
			if subset >= 1<<uint(len(req)) {
				// subsets beyond 2^|R| repeat smaller ones: still executed (different rendering), counted as the reduced subset
				subset %= 1 << uint(len(req))
			}
			r2 := CaseRng(seed, "C11r", idx)
			sc := DefaultScen()
			sc.ClosedOnly = true
			sc.HostileVals = false
			g := NewScenGen(r2, t, sc)
			supplyCLI := map[int]bool{}
			for i, o := range req {
				if subset&(1<<uint(i)) != 0 {
					supplyCLI[o.ID] = true
				}
			}
			helpFlagLevel := -1
			if helpMode == 3 {
				// the help flag can be given at any level of the path where it is visible (also above a wrapper
				// created with UnsetOptions): the help of the level reached is expected
				var lv []int
				n := t.Root
				for i := 0; ; i++ {
					if n.HasHelpOpt() {
						lv = append(lv, i)
					}
					if i == len(pathToks) {
						break
					}
					n = n.Children[pathToks[i]]
				}
				if len(lv) == 0 {
					helpMode = 0
				} else {
					helpFlagLevel = lv[r2.Intn(len(lv))]
				}
			}
			s := &Scenario{Prog: p}
			// options are placed at a level where they are visible: between their defining level and the target
			placeAt := map[int][]*Opt{}
			levelNodes := []*Node{t.Root}
			{
				n := t.Root
				for _, c := range pathToks {
					n = n.Children[c]
					levelNodes = append(levelNodes, n)
				}
			}
			visibleAt := func(o *Opt, n *Node) bool {
				for _, v := range n.Visible {
					if v == o {
						return true
					}
				}
				return false
			}
			var extras []*Opt
			for _, o := range target.Visible {
				if o.ID >= 0 && !o.Required && r2.Chance(1, 4) {
					extras = append(extras, o)
				}
			}
			for _, o := range append(append([]*Opt{}, req...), extras...) {
				if o.Required && !supplyCLI[o.ID] {
					continue
				}
				var lv []int
				for i, n := range levelNodes {
					if visibleAt(o, n) {
						lv = append(lv, i)
					}
				}
				l := lv[r2.Intn(len(lv))]
				placeAt[l] = append(placeAt[l], o)
			}
			for lvl := 0; lvl <= len(pathToks); lvl++ {
				if lvl > 0 {
					s.Items = append(s.Items, g.Descend(pathToks[lvl-1]))
				}
				if helpFlagLevel == lvl {
					it := g.Occurrence(t.HelpOpt)
					s.Items = append(s.Items, it)
				}
				for _, o := range placeAt[lvl] {
					s.Items = append(s.Items, g.Occurrence(o))
				}
			}
			if p.Mode == 1 {
				s.Items = mergeBundles(r2, s.Items)
			}
			topic := ""
			unknownTopic := false
			switch helpMode {
			case 4:
				s.Items = append(s.Items, g.Descend("help"))
			case 5:
				s.Items = append(s.Items, g.Descend("help"))
				var cs []string
				for n, c := range target.Children {
					if !c.IsHelp {
						cs = append(cs, n)
					}
				}
				sortStrings(cs)
				if len(cs) > 0 && r2.Bool() {
					topic = r2.Pick(cs)
				} else {
					unknownTopic = true
					topic = "zz-no-such-topic"
					// the name of a command of an enclosing level (the target itself, its siblings, ...) is no topic here either
					var anc []string
					for n := target; n.Parent != nil; n = n.Parent {
						for name, c := range n.Parent.Children {
							if _, here := target.Children[name]; !here && !c.IsHelp {
								anc = append(anc, name)
							}
						}
					}
					sortStrings(anc)
					if len(anc) > 0 && r2.Bool() {
						topic = r2.Pick(anc)
					}
				}
				s.Items = append(s.Items, &Item{K: IPos, Tok: topic, Tokens: []string{topic}, Level: g.Node().Path})
			default:
				if r2.Chance(1, 3) {
					pos := g.Pay().Pos()
					s.Items = append(s.Items, &Item{K: IPos, Tok: pos, Tokens: []string{pos}, Level: g.Node().Path})
				}
			}
			s.Assemble()
			exp := Fold(t, s)
			// who is missing
			var missing []*Opt
			for _, o := range req {
				if !exp.Called[o.ID] {
					missing = append(missing, o)
				}
			}
			helpNames := []string{"none", "none", "none", "help-option", "help-command", "help-topic"}
			doc := &CaseDoc{Prog: p, Argv: s.Argv, Items: s.Items, Note: fmt.Sprintf("target=%q required=%d missing=%d help=%s", target.Path, len(req), len(missing), helpNames[helpMode])}
			res := &fw.Result{Sample: doc, Cells: []string{fmt.Sprintf("help=%s|required=%d|missing=%d|depth=%d", helpNames[helpMode], len(req), len(missing), len(pathToks))}}
			b := Build(p)
			defer b.Cleanup()
			oc := b.RunParse(s.Argv)
			res.Execs++
			if d := Universal(s.Argv, oc); len(d) > 0 {
				doc.Got = oc
				return viol("universal monitor", d, doc)
			}
			if !oc.HasErr {
				b.RunDispatch(oc, "mk")
				res.Execs++
			}
			res.Events = 3 + len(oc.Calls)
			fail := func(msg string) *fw.Result {
				doc.Got = oc
				return viol("required/help rule", []string{msg}, doc)
			}
			if oc.Panic != "" {
				return fail("panic: " + oc.Panic)
			}
			mentionsMissing := func(text string) bool {
				for _, o := range missing {
					if o.ReqMsg != "" && strings.Contains(text, o.ReqMsg) {
						return true
					}
					if o.ReqMsg == "" && strings.Contains(text, "'"+o.Name+"'") {
						return true
					}
				}
				return false
			}
			switch helpMode {
			case 0, 1, 2:
				if len(missing) > 0 {
					if len(oc.Calls) != 0 {
						return fail(fmt.Sprintf("required option(s) missing but CommandFn of %v ran", callNodes(oc.Calls)))
					}
					errText, isParsing := oc.Err, oc.IsParsing
					if !oc.HasErr {
						errText, isParsing = oc.DispErr, oc.DispParsing
						if !oc.DispHasErr {
							return fail("required option(s) missing but neither Parse nor Dispatch returned an error")
						}
					}
					if !isParsing {
						return fail(fmt.Sprintf("missing-required error %q does not satisfy errors.Is(err, ErrorParsing)", errText))
					}
					if !mentionsMissing(errText) {
						return fail(fmt.Sprintf("error %q carries neither the custom message nor the name of a missing required option", errText))
					}
				} else {
					if oc.HasErr {
						return fail("all required options supplied but Parse failed: " + oc.Err)
					}
					if d := Diff(t, oc, exp); len(d) > 0 {
						doc.Expect = exp
						return viol("parse anchor", d, doc)
					}
					if d := DiffDispatch(t, oc, exp, "mk"); len(d) > 0 {
						doc.Expect = exp
						return viol("required/help rule", d, doc)
					}
				}
			default:
				if oc.HasErr {
					return fail("help requested but Parse failed: " + oc.Err)
				}
				if len(oc.Calls) != 0 {
					return fail(fmt.Sprintf("help requested but user CommandFn of %v ran", callNodes(oc.Calls)))
				}
				if helpMode == 5 && unknownTopic {
					if !oc.DispHasErr || oc.DispHelp {
						return fail(fmt.Sprintf("unknown help topic: expected an error other than ErrorHelpCalled, got %q", oc.DispErr))
					}
					break
				}
				if !oc.DispHelp {
					return fail(fmt.Sprintf("help requested: Dispatch returned %q, expected ErrorHelpCalled", oc.DispErr))
				}
				ref := pathToks
				if helpMode == 5 {
					ref = append(append([]string{}, pathToks...), topic)
				}
				want := refHelp(p, ref)
				res.Execs++
				if oc.DispWriter != want {
					doc.Extra = map[string]string{"want_help": want, "got_writer": oc.DispWriter}
					return fail("help requested: Writer does not hold exactly the help text of the level")
				}
				if oc.DispParsing {
					return fail("help requested: a missing-required error was reported")
				}
			}
			if len(req) > 0 {
				res.Sig = fmt.Sprintf("%d|%s|%d|%d|%s", idx/96, target.Path, subset, helpMode, topic)
			}
			return res
		},
	})
}
