package px

import (
	"bytes"
	"fmt"
	"os"

	"github.com/DavidGamba/go-getoptions"
)

// CompOutcome - what a completion request produced.
type CompOutcome struct {
	Panic     string   `json:"panic,omitempty"`
	Stdout    string   `json:"stdout"`
	Writer    string   `json:"writer,omitempty"`
	ExitCodes []int    `json:"exit_codes"`
	Returned  bool     `json:"returned"`
	RemNil    bool     `json:"remnil"`
	HasErr    bool     `json:"haserr,omitempty"`
	FnCalls   []string `json:"fncalls,omitempty"`
	CompFn    int      `json:"compfn_calls,omitempty"`
}

// RunCompletion - in-process completion through the verif setters (exit function and completion writer).
// args is what the shell passes: [program, current word, previous word].
func RunCompletion(p *Prog, compLine string, zsh bool, args []string) (co *CompOutcome) {
	co = &CompOutcome{}
	var b *Built
	func() {
		defer func() {
			if r := recover(); r != nil {
				co.Panic = "definition: " + fmt.Sprint(r)
			}
		}()
		b = Build(p)
	}()
	if b == nil {
		return co
	}
	defer b.Cleanup()
	out := &bytes.Buffer{}
	oldW := getoptions.VerifSetCompletionWriter(out)
	oldE := getoptions.VerifSetExitFn(func(code int) { co.ExitCodes = append(co.ExitCodes, code) })
	defer func() {
		getoptions.VerifSetCompletionWriter(oldW)
		getoptions.VerifSetExitFn(oldE)
	}()
	b.setEnv("COMP_LINE", compLine, true)
	if zsh {
		b.setEnv("ZSHELL", "true", true)
	} else {
		b.setEnv("ZSHELL", "", false)
	}
	func() {
		defer func() {
			if r := recover(); r != nil {
				co.Panic = fmt.Sprint(r)
			}
		}()
		rem, err := b.Opt.Parse(append([]string{}, args...))
		co.Returned = true
		co.RemNil = rem == nil
		co.HasErr = err != nil
	}()
	co.Stdout = out.String()
	co.Writer = b.Writer.String()
	for _, c := range b.Calls {
		co.FnCalls = append(co.FnCalls, c.Node)
	}
	co.CompFn = b.CompCalls
	return co
}

var _ = os.Getenv
