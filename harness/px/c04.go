package px

import (
	"fmt"

	"verif/fw"
)

// C04 - `--` ends option parsing; everything after it is returned untouched.
// Relation: Outcome(A ++ ["--"] ++ T) == Outcome(A) with remaining extended by T (by "--",T when require-order
// already stopped inside A); anchor: Outcome(A) is checked against the fold.

var c04Contexts = []string{"pos", "flag", "valued", "optbare", "multi-open", "cmd", "unk", "empty", "mandatory-takes-dashdash"}

func lastContext(s *Scenario) string {
	if len(s.Items) == 0 {
		return "empty"
	}
	it := s.Items[len(s.Items)-1]
	switch it.K {
	case IPos:
		return "pos"
	case IFlag:
		return "flag"
	case IValued:
		return "valued"
	case IOptBare:
		return "optbare"
	case IMulti:
		if it.Open {
			return "multi-open"
		}
		return "multi-full"
	case ICmd:
		return "cmd"
	case IUnk, IBundleUnk:
		return "unk"
	}
	return "other"
}

func init() {
	fw.Register(&fw.Check{
		ID:        "C04",
		Technique: "runtime monitor: metamorphic comparison of two real Parse(+Dispatch) executions (A vs A ++ `--` ++ T) with the intended-outcome fold as absolute anchor on both sides",
		Rule: "case = prefix A ending in each context class (positional, flag, satisfied scalar, optional-value option without value, multi-value option below max for all 4 element types, command token, unknown option, empty, option whose still-missing mandatory value is `--`) " +
			"+ hostile tail T (known option names with values, command names, unknown options, ambiguous prefixes, further `--`, arbitrary text); all mode products; distinct = (modes, context, item shapes, tail length); non-trivial = T is not empty" + genDims,
		Cases: func(tier string) int { return tierN(tier, 60000, 2400000) },
		Run: func(seed uint64, idx int, tier string) *fw.Result {
			want := c04Contexts[idx%len(c04Contexts)]
			for attempt := 0; ; attempt++ {
				r := CaseRng(seed, "C04", idx*64+attempt)
				pc := DefaultCfg()
				pc.Modes = []int{(idx / 9) % 3}
				pc.Unknowns = []int{(idx / 27) % 3}
				pc.ReqOrder = (idx/81)%3 == 0
				pc.FnLess = false
				pc.Valid = 15
				p := GenProg(r, pc)
				if pc.ReqOrder {
					p.ReqOrder = true
				}
				sc := DefaultScen()
				sc.TermPct = 0
				sc.WUnk = 2
				sc.MaxItems = 6
				sc.MinItems = 1
				if want == "empty" {
					sc.MinItems, sc.MaxItems = 0, 0
				}
				if want == "mandatory-takes-dashdash" || ((want == "optbare" || want == "multi-open") && idx%2 == 0) {
					// (for the open contexts: a first `--` that is an option's value in front, the real terminator behind the open item)
					sc.InjectAt = 0
					if want == "mandatory-takes-dashdash" {
						sc.InjectAt = r.Intn(3)
					}
					sc.Inject = func(g *ScenGen, prev *Item) *Item {
						var cands []*Opt
						for _, o := range g.Node().Visible {
							if o.ID >= 0 && (o.Kind.IsScalar() || (o.Kind.IsMulti() && o.Min >= 1)) {
								cands = append(cands, o)
							}
						}
						if len(cands) == 0 {
							return nil
						}
						o := cands[r.Intn(len(cands))]
						it := &Item{Opt: o, OptID: o.ID, Key: o.Name, Typed: o.Name, Level: g.Node().Path}
						if o.Kind.IsScalar() {
							it.K = IValued
							it.Vals = []string{"--"}
						} else {
							it.K = IMulti
							for i := 0; i < o.Min-1; i++ {
								it.Vals = append(it.Vals, g.Pay().ValueFor(o.Kind))
							}
							it.Vals = append(it.Vals, "--")
							it.Open = o.Min < o.Max
						}
						g.Render(it)
						return it
					}
				}
				a := GenScenario(r, p, sc)
				stoppedInA := Fold(Resolve(p), a).Stopped
				ctx := lastContext(a)
				if want == "mandatory-takes-dashdash" {
					ok := false
					for _, it := range a.Items {
						for _, v := range it.Vals {
							if v == "--" && !it.Attached {
								ok = true
							}
						}
					}
					if !ok && attempt < 40 {
						continue
					}
					ctx = want
				} else if ctx != want && attempt < 40 && !stoppedInA {
					continue
				}
				t := Resolve(p)
				// tail
				g := &scenGen{r: r, cfg: sc, tree: t, node: t.Root, pay: NewPayloads(r), mode: p.Mode}
				for _, it := range a.Items {
					if it.K == ICmd {
						g.node = g.node.Children[it.Tok]
					}
				}
				tail := g.hostileTail(r.Range(0, 5))
				expA := Fold(t, a)
				ext := &Scenario{Prog: p, Items: a.Items, Tail: append(append([]string{}, a.Tail...), append([]string{"--"}, tail...)...)}
				if !stoppedInA {
					ext = &Scenario{Prog: p, Items: a.Items, Term: true, Tail: tail}
				}
				ext.Assemble()
				expE := Fold(t, ext)

				bA := Build(p)
				ocA := bA.RunParse(a.Argv)
				doc := &CaseDoc{Prog: p, Argv: ext.Argv, Items: a.Items, Note: "context=" + ctx}
				res := &fw.Result{Execs: 2, Sample: doc, Cells: append(scenCells(a, ""), "context="+ctx, fmt.Sprintf("stopped_by_require_order_in_A=%v", stoppedInA))}
				if d := Diff(t, ocA, expA); len(d) > 0 {
					bA.Cleanup()
					doc.Got, doc.Expect, doc.Argv = ocA, expA, a.Argv
					return viol("anchor (prefix A)", d, doc)
				}
				if !ocA.HasErr {
					bA.RunDispatch(ocA, "m")
				}
				bA.Cleanup()
				bE := Build(p)
				ocE := bE.RunParse(ext.Argv)
				if d := Universal(ext.Argv, ocE); len(d) > 0 {
					bE.Cleanup()
					doc.Got = ocE
					return viol("universal monitor", d, doc)
				}
				if d := Diff(t, ocE, expE); len(d) > 0 {
					bE.Cleanup()
					doc.Got, doc.Expect = ocE, expE
					return viol("terminator rule", d, doc)
				}
				if !ocE.HasErr {
					bE.RunDispatch(ocE, "m")
				}
				bE.Cleanup()
				// relation
				var d []string
				if ocA.HasErr != ocE.HasErr {
					d = append(d, fmt.Sprintf("Parse(A) error=%v (%s) but Parse(A ++ -- ++ T) error=%v (%s)", ocA.HasErr, ocA.Err, ocE.HasErr, ocE.Err))
				} else if !ocA.HasErr {
					wantRem := append(append([]string{}, ocA.Remaining...), tail...)
					if stoppedInA {
						wantRem = append(append(append([]string{}, ocA.Remaining...), "--"), tail...)
					}
					if !eqStrs(ocE.Remaining, wantRem) {
						d = append(d, fmt.Sprintf("remaining %q, expected remaining(A) ++ T = %q", ocE.Remaining, wantRem))
					}
					if x, y := optState(ocA), optState(ocE); !eqStrs(x, y) {
						d = append(d, fmt.Sprintf("option state changed by tokens behind `--`: %v", listDiff(x, y)))
					}
					if fmt.Sprint(callNodes(ocA.Calls)) != fmt.Sprint(callNodes(ocE.Calls)) {
						d = append(d, fmt.Sprintf("command selected changed by tokens behind `--`: %v vs %v", callNodes(ocA.Calls), callNodes(ocE.Calls)))
					}
					if ocA.Writer != ocE.Writer {
						d = append(d, fmt.Sprintf("warnings changed by tokens behind `--`: %q vs %q", ocA.Writer, ocE.Writer))
					}
				}
				if len(d) > 0 {
					doc.Got = ocE
					doc.Extra = map[string]interface{}{"A": a.Argv, "outcome_A": ocA}
					return viol("terminator relation", d, doc)
				}
				res.Events = len(ocE.Remaining) + len(ocE.Opts)
				if len(tail) > 0 {
					res.Sig = ctx + "|" + scenSig(a) + fmt.Sprintf("|T%d", len(tail))
				}
				return res
			}
		},
	})
}
