package px

import (
	"fmt"
	"math"
	"sort"
	"strconv"
	"strings"
)

// Intended-parse AST (DESIGN appendix A): items are sampled first, rendered to argv second;
// the expected outcome is a fold over the items, no parser is re-implemented.

type ItemKind int

const (
	IPos ItemKind = iota
	IFlag
	IValued  // string/int/float (mandatory or optional kind) with a value
	IOptBare // optional-value option without value (open)
	IMulti
	ICmd
	IUnk // one token made only of unknown option(s)
	IBundleUnk
	IRaw // raw token after the stop point
)

var itemKindNames = []string{"pos", "flag", "valued", "optbare", "multi", "cmd", "unk", "bundleunk", "raw"}

type Item struct {
	K        ItemKind `json:"k"`
	Opt      *Opt     `json:"-"`
	OptID    int      `json:"opt,omitempty"`
	Key      string   `json:"key,omitempty"`   // full key intended
	Typed    string   `json:"typed,omitempty"` // text typed (key or unique prefix)
	Short    bool     `json:"short,omitempty"`
	Attached bool     `json:"attached,omitempty"`
	Vals     []string `json:"vals,omitempty"`
	Tok      string   `json:"tok,omitempty"`
	UnkNames []string `json:"unknames,omitempty"`
	Flags    []*Item  `json:"flags,omitempty"` // bundle members before the unknown letters
	Level    string   `json:"level"`
	Tokens   []string `json:"tokens"`
	Open     bool     `json:"open,omitempty"`
	Repeat   int      `json:"repeat,omitempty"` // Bundling: the flag letter written Repeat times in one token (`-vvvv...`)
}

// Scenario - program, interpreted items, optional stop and raw tail.
type Scenario struct {
	Prog  *Prog    `json:"prog"`
	Items []*Item  `json:"items"`
	Term  bool     `json:"term,omitempty"` // a `--` follows the items
	Tail  []string `json:"tail,omitempty"` // raw tokens after `--` or after the require-order stop item
	Argv  []string `json:"argv"`
}

// Assemble - argv from the rendered items.
func (s *Scenario) Assemble() []string {
	argv := []string{}
	for _, it := range s.Items {
		argv = append(argv, it.Tokens...)
	}
	if s.Term {
		argv = append(argv, "--")
	}
	argv = append(argv, s.Tail...)
	s.Argv = argv
	return argv
}

// Expect - expected outcome from the fold.
type Expect struct {
	Err         bool
	ErrClass    string     // "", conv, unknown, ambiguous, missing
	ErrContains []string   // first error candidate in argv order: every one must be contained in the message
	ErrAlts     [][]string // all error candidates (the statements do not rank different kinds of error)
	ErrAbsent   []string   // for unknown-option errors: names that must not be the one reported
	Remaining   []string
	Vals        map[int]string
	Called      map[int]bool
	CalledAs    map[int]string
	Node        string
	WarnNames   []string
	Stopped     bool
}

// ConvVal - conversion oracle for one value text of an option kind (strconv, decimal).
func ConvVal(k Kind, v string) (interface{}, bool) {
	switch {
	case k.IsInt():
		i, err := strconv.Atoi(v)
		return i, err == nil
	case k.IsFloat():
		f, err := strconv.ParseFloat(v, 64)
		return f, err == nil
	}
	return v, true
}

type foldState struct {
	tree *Tree
	node *Node
	exp  *Expect
	cur  map[int]interface{} // current typed value per option id
	stop bool

	sawFailUnknown bool
	firstUnknown   string
}

func newFold(t *Tree) *foldState {
	f := &foldState{tree: t, node: t.Root, cur: map[int]interface{}{}}
	f.exp = &Expect{Vals: map[int]string{}, Called: map[int]bool{}, CalledAs: map[int]string{}, Remaining: []string{}}
	for _, o := range t.AllOpts() {
		f.cur[o.ID] = defaultVal(o)
		if o.SetCalled || o.SetCalledFirst {
			f.exp.Called[o.ID] = true
		}
		if o.Env != "" && o.EnvSet && o.EnvVal != "" {
			f.applyEnv(o)
		}
	}
	return f
}

func defaultVal(o *Opt) interface{} {
	switch o.Kind {
	case KBool:
		return o.DefB
	case KIncr, KInt, KIntOpt:
		return o.DefI
	case KString, KStringOpt:
		return o.DefS
	case KFloat, KFloatOpt:
		return o.DefF
	case KStrings:
		return []string{}
	case KInts:
		return []int{}
	case KFloats:
		return []float64{}
	case KMap:
		return map[string]string{}
	}
	return nil
}

// EnvValid - is the text valid for the option kind when read from the environment (C12).
func EnvValid(o *Opt, text string) (interface{}, bool) {
	switch o.Kind {
	case KBool:
		l := strings.ToLower(text)
		if l == "true" {
			return true, true
		}
		if l == "false" {
			return false, true
		}
		return nil, false
	case KString, KStringOpt, KInt, KIntOpt, KFloat, KFloatOpt:
		return ConvVal(o.Kind, text)
	}
	return nil, false
}

func (f *foldState) applyEnv(o *Opt) {
	v, ok := EnvValid(o, o.EnvVal)
	if !ok {
		return
	}
	if len(o.Valid) > 0 && !contains(o.Valid, o.EnvVal) && o.Kind != KBool {
		return
	}
	f.cur[o.ID] = v
	f.exp.Called[o.ID] = true
	f.exp.CalledAs[o.ID] = o.Env
}

func contains(ss []string, s string) bool {
	for _, e := range ss {
		if e == s {
			return true
		}
	}
	return false
}

func (f *foldState) fail(class string, contains ...string) {
	f.exp.ErrAlts = append(f.exp.ErrAlts, contains)
	if f.exp.Err {
		if f.exp.ErrClass != class {
			f.exp.ErrClass = "several"
		}
		return
	}
	f.exp.Err = true
	f.exp.ErrClass = class
	f.exp.ErrContains = contains
}

func (f *foldState) called(o *Opt, key string) {
	f.exp.Called[o.ID] = true
	f.exp.CalledAs[o.ID] = key
}

// applyValue - stores one value text into option o per the documented rules.
func (f *foldState) applyValue(o *Opt, v string, mandatoryOrAttached bool) {
	if len(o.Valid) > 0 && !contains(o.Valid, v) {
		f.fail("valid", o.Name)
		return
	}
	switch o.Kind {
	case KString, KStringOpt:
		f.cur[o.ID] = v
	case KInt, KIntOpt:
		i, ok := ConvVal(KInt, v)
		if !ok {
			f.fail("conv", v)
			return
		}
		f.cur[o.ID] = i
	case KFloat, KFloatOpt:
		x, ok := ConvVal(KFloat, v)
		if !ok {
			f.fail("conv", v)
			return
		}
		f.cur[o.ID] = x
	case KStrings:
		f.cur[o.ID] = append(f.cur[o.ID].([]string), v)
	case KInts:
		if strings.Contains(v, "..") && mandatoryOrAttached {
			parts := strings.SplitN(v, "..", 2)
			a, e1 := strconv.Atoi(parts[0])
			b, e2 := strconv.Atoi(parts[1])
			if e1 != nil || e2 != nil || a >= b {
				f.fail("conv", v)
				return
			}
			cur := f.cur[o.ID].([]int)
			for j := a; j <= b; j++ {
				cur = append(cur, j)
			}
			f.cur[o.ID] = cur
			return
		}
		i, ok := ConvVal(KInt, v)
		if !ok {
			f.fail("conv", v)
			return
		}
		f.cur[o.ID] = append(f.cur[o.ID].([]int), i.(int))
	case KFloats:
		x, ok := ConvVal(KFloat, v)
		if !ok {
			f.fail("conv", v)
			return
		}
		f.cur[o.ID] = append(f.cur[o.ID].([]float64), x.(float64))
	case KMap:
		idx := strings.Index(v, "=")
		if idx < 0 {
			f.fail("kv") // the message names the key that was used, any error is accepted
			return
		}
		k := v[:idx]
		if f.tree.Prog.MapLower {
			k = strings.ToLower(k)
		}
		m := f.cur[o.ID].(map[string]string)
		m[k] = v[idx+1:]
	}
}

func (f *foldState) applyFlag(o *Opt) {
	switch o.Kind {
	case KBool:
		f.cur[o.ID] = !o.DefB
	case KIncr:
		f.cur[o.ID] = f.cur[o.ID].(int) + 1
	}
}

// unkQuote - how an unknown option's name must appear in an error or warning: quoted; a name marked with a leading NUL
// (token written with three dashes: the library may count the third dash as part of the name or not) only needs the
// name followed by the closing quote.
func unkQuote(n string) string {
	if strings.HasPrefix(n, "\x00") {
		return n[1:] + "'"
	}
	return "'" + n + "'"
}

func (f *foldState) unknownTok(it *Item) {
	// require order: an unknown option is the stop token (handled by caller through f.stop)
	switch f.node.Unknown {
	case 0:
		if f.sawFailUnknown {
			// a later unknown option must not be the one reported
			for _, n := range it.UnkNames {
				q := unkQuote(n)
				if q != f.firstUnknown {
					f.exp.ErrAbsent = append(f.exp.ErrAbsent, q)
				}
			}
			return
		}
		f.sawFailUnknown = true
		f.firstUnknown = unkQuote(it.UnkNames[0])
		f.fail("unknown", f.firstUnknown)
		for _, n := range it.UnkNames[1:] {
			q := unkQuote(n)
			if q != f.firstUnknown {
				f.exp.ErrAbsent = append(f.exp.ErrAbsent, q)
			}
		}
	case 1:
		f.exp.WarnNames = append(f.exp.WarnNames, it.UnkNames...)
		f.exp.Remaining = append(f.exp.Remaining, it.Tokens[0])
	case 2:
		f.exp.Remaining = append(f.exp.Remaining, it.Tokens[0])
	}
}

// Fold - expected outcome of a scenario.
func Fold(t *Tree, s *Scenario) *Expect {
	f := newFold(t)
	for _, it := range s.Items {
		if f.stop {
			f.exp.Remaining = append(f.exp.Remaining, it.Tokens...)
			continue
		}
		switch it.K {
		case IRaw:
			f.exp.Remaining = append(f.exp.Remaining, it.Tokens...)
		case IPos:
			f.exp.Remaining = append(f.exp.Remaining, it.Tokens...)
			if f.node.ReqOrder {
				f.stop = true
			}
		case IFlag:
			f.called(it.Opt, it.Key)
			f.applyFlag(it.Opt)
			for k := 1; k < it.Repeat; k++ {
				f.applyFlag(it.Opt)
			}
		case IValued:
			f.called(it.Opt, it.Key)
			f.applyValue(it.Opt, it.Vals[0], true)
		case IOptBare:
			f.called(it.Opt, it.Key)
		case IMulti:
			f.called(it.Opt, it.Key)
			for i, v := range it.Vals {
				f.applyValue(it.Opt, v, i < it.Opt.Min || (i == 0 && it.Attached))
			}
		case ICmd:
			f.node = f.node.Children[it.Tok]
		case IUnk:
			if f.node.ReqOrder {
				f.exp.Remaining = append(f.exp.Remaining, it.Tokens...)
				f.stop = true
				continue
			}
			f.unknownTok(it)
		case IBundleUnk:
			// known flags before the first unknown letter take effect only when order is not required;
			// with require-order the statement is silent about a mixed bundle: not generated.
			for _, fl := range it.Flags {
				f.called(fl.Opt, fl.Key)
				if fl.K == IValued {
					f.applyValue(fl.Opt, fl.Vals[0], true) // takes the token behind the bundle as its value
				} else {
					f.applyFlag(fl.Opt)
				}
			}
			f.unknownTok(it)
		}
	}
	f.exp.Stopped = f.stop
	f.exp.Remaining = append(f.exp.Remaining, s.Tail...)
	f.exp.Node = f.node.Path
	for id, v := range f.cur {
		f.exp.Vals[id] = Enc(v)
	}
	return f.exp
}

// ---------------------------------------------------------------------------------------------
// Comparison of an observed outcome with an expectation.

// Diff - list of disagreements (empty = agrees).
func Diff(t *Tree, oc *Outcome, e *Expect) []string {
	var d []string
	if oc.Panic != "" {
		return []string{"panic: " + oc.Panic}
	}
	if e.Err {
		if !oc.HasErr {
			d = append(d, fmt.Sprintf("expected a parse error (%s %v), got none; remaining=%q", e.ErrClass, e.ErrContains, oc.Remaining))
			return d
		}
		matched := false
		for _, alt := range e.ErrAlts {
			all := true
			for _, c := range alt {
				if !strings.Contains(oc.Err, c) {
					all = false
				}
			}
			if all {
				matched = true
			}
		}
		if !matched {
			d = append(d, fmt.Sprintf("error %q mentions none of the expected causes %q", oc.Err, e.ErrAlts))
		}
		if strings.Contains(strings.ToLower(oc.Err), "unknown") {
			for _, c := range e.ErrAbsent {
				if strings.Contains(oc.Err, c) {
					d = append(d, fmt.Sprintf("error %q names %s, which is not the first unknown option", oc.Err, c))
				}
			}
		}
		if !oc.RemNil {
			d = append(d, "failed Parse returned non-nil remaining")
		}
		return d
	}
	if oc.HasErr {
		return []string{fmt.Sprintf("unexpected parse error %q", oc.Err)}
	}
	if !eqStrs(oc.Remaining, e.Remaining) {
		d = append(d, fmt.Sprintf("remaining %q, expected %q", oc.Remaining, e.Remaining))
	}
	d = append(d, diffOpts(t, oc.Opts, oc.Ptrs, e)...)
	// warnings
	for _, n := range e.WarnNames {
		if !strings.Contains(oc.Writer, unkQuote(n)) {
			d = append(d, fmt.Sprintf("no warning naming %q on Writer (%q)", n, oc.Writer))
		}
	}
	if len(e.WarnNames) == 0 && oc.Writer != "" {
		d = append(d, fmt.Sprintf("unexpected output on Writer: %q", oc.Writer))
	}
	return d
}

func diffOpts(t *Tree, opts map[string]OptObs, ptrs map[int]string, e *Expect) []string {
	// one line per (option, kind of disagreement); the views that disagree are listed behind it
	type agg struct {
		msg   string
		where []string
	}
	var order []string
	seen := map[string]*agg{}
	add := func(id int, msg, where string) {
		k := fmt.Sprintf("%d|%s", id, msg)
		a, ok := seen[k]
		if !ok {
			a = &agg{msg: msg}
			seen[k] = a
			order = append(order, k)
		}
		a.where = append(a.where, where)
	}
	keys := make([]string, 0, len(opts))
	for k := range opts {
		keys = append(keys, k)
	}
	sort.Strings(keys)
	for _, pk := range keys {
		obs := opts[pk]
		i := strings.Index(pk, "|")
		path, key := pk[:i], pk[i+1:]
		o := t.Nodes[path].KeyTable()[key]
		if o.ID < 0 { // help flag: expected state tracked under id -1 when present
			if _, ok := e.Vals[-1]; !ok {
				continue
			}
		}
		where := fmt.Sprintf("%q@%q", key, path)
		if want, ok := e.Vals[o.ID]; ok && obs.Val != want {
			add(o.ID, fmt.Sprintf("option #%d (%s) Value = %s, expected %s", o.ID, o.Name, obs.Val, want), where)
		}
		if obs.Called != e.Called[o.ID] {
			add(o.ID, fmt.Sprintf("option #%d (%s) Called = %v, expected %v", o.ID, o.Name, obs.Called, e.Called[o.ID]), where)
		}
		if obs.CalledAs != e.CalledAs[o.ID] {
			add(o.ID, fmt.Sprintf("option #%d (%s) CalledAs = %q, expected %q", o.ID, o.Name, obs.CalledAs, e.CalledAs[o.ID]), where)
		}
	}
	var d []string
	for _, k := range order {
		a := seen[k]
		w := a.where
		if len(w) > 3 {
			w = append(w[:3:3], fmt.Sprintf("+%d more views", len(a.where)-3))
		}
		d = append(d, a.msg+" [seen through "+strings.Join(w, ", ")+"]")
	}
	ids := make([]int, 0, len(ptrs))
	for id := range ptrs {
		ids = append(ids, id)
	}
	sort.Ints(ids)
	for _, id := range ids {
		if want, ok := e.Vals[id]; ok && ptrs[id] != want {
			d = append(d, fmt.Sprintf("pointer/Var of option #%d = %s, expected %s", id, ptrs[id], want))
		}
	}
	return d
}

func eqStrs(a, b []string) bool {
	if len(a) != len(b) {
		return false
	}
	for i := range a {
		if a[i] != b[i] {
			return false
		}
	}
	return true
}

// IsSubsequence - a strictly increasing map from sub into full with byte equality.
func IsSubsequence(sub, full []string) bool {
	j := 0
	for _, s := range sub {
		for j < len(full) && full[j] != s {
			j++
		}
		if j == len(full) {
			return false
		}
		j++
	}
	return true
}

// Universal - monitors attached to every Parse anywhere (C03a, C19 contract).
func Universal(argv []string, oc *Outcome) []string {
	var d []string
	if oc.Panic != "" {
		return []string{"panic: " + oc.Panic}
	}
	if oc.HasErr {
		if !oc.RemNil {
			d = append(d, "failed Parse returned non-nil remaining")
		}
		return d
	}
	if !IsSubsequence(oc.Remaining, argv) {
		d = append(d, fmt.Sprintf("remaining %q is not a subsequence of argv %q", oc.Remaining, argv))
	}
	return d
}

var _ = math.Float64bits
