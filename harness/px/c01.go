package px

import (
	"fmt"
	"strings"

	"verif/fw"
)

// C01 - scalar option values reach the program exactly as written.

var c01Kinds = []Kind{KString, KInt, KFloat, KStringOpt, KIntOpt, KFloatOpt, KBool, KIncr}

// Numerals at boundaries and malformed numerals.
var c01Numerals = []string{
	"0", "7", "007", "+7", "-7", "-0", "+0", "9223372036854775807", "9223372036854775808", "-9223372036854775808", "-9223372036854775809",
	"2147483648", "4294967296", "0x1F", "0X1f", "0b101", "0o17", "017", "1_000", "1__0", "_1", "1_", "1e3", "1E3", "1e+3", "1e-3", " 1", "1 ", "1\n", "\t1",
	"１２", "٣", "1.0", "1.", ".5", "5.", ".", "--1", "1-", "1,000", "1..3", "3..1", "1 2", "", "e5", "1e", "1e999", "-1e999", "1e-400", "1e308", "1.7976931348623157e308", "1.7976931348623159e308",
	"4.9e-324", "2.4e-324", "16777217", "0.1", "0.30000000000000004", "1e39", "NaN", "nan", "NAN", "Inf", "inf", "+Inf", "-Inf", "Infinity", "-infinity", "infinit", "0x1p-2", "0x1.8p1", "0x", "1f", "1d",
	"123456789012345678901234567890", "0.000000000000000000000000000000000000000001", "1e0", "-.5", "+.5", "1.5.5", "1e3e3", "１.５", "1٫5", "½",
}

// dash look-alikes: hyphen, non-breaking hyphen, figure/en/em dash, horizontal bar, minus sign, small and fullwidth hyphen
var c01DashLookalikes = []string{
	"1990\u20132000", "\u2014", "\u2010x", "a\u2011b", "\u22125", "\uff0d1", "\u2012", "\u2015x=y", "x\u2013", "\u2013", "\u2013\u2013name", "\ufe63v", "3\u22121",
}

func c01Value(r *Rng, k Kind, attached bool) string {
	if pk := r.Peek(0xDA5); pk%14 == 0 {
		return c01DashLookalikes[int((pk/14)%uint64(len(c01DashLookalikes)))]
	}
	return c01ValueOld(r, k, attached)
}

func c01ValueOld(r *Rng, k Kind, attached bool) string {
	for tries := 0; tries < 100; tries++ {
		var v string
		switch r.Intn(6) {
		case 0, 1:
			if k.IsStr() {
				v = r.Pick(HostileAttached)
			} else {
				v = r.Pick(c01Numerals)
			}
		case 2:
			v = r.Pick(c01Numerals)
		case 3:
			v = r.Pick(HostileAttached)
		case 4: // random bytes
			n := r.Range(1, 12)
			b := make([]byte, n)
			for i := range b {
				b[i] = byte(r.Range(1, 255))
			}
			v = string(b)
		default: // random numeral-ish text
			al := "0123456789+-.eE_xX "
			n := r.Range(1, 10)
			b := make([]byte, n)
			for i := range b {
				b[i] = al[r.Intn(len(al))]
			}
			v = string(b)
		}
		if v == "" {
			continue
		}
		if !attached && strings.HasPrefix(v, "-") {
			continue
		}
		return v
	}
	return "x"
}

func valueClass(k Kind, v string) string {
	_, ok := ConvVal(k, v)
	c := "valid"
	if !ok {
		c = "malformed"
	}
	switch {
	case strings.ContainsAny(v, "\n\r"):
		c += "+newline"
	case strings.HasPrefix(v, "-"):
		c += "+dash"
	case strings.Contains(v, "="):
		c += "+eq"
	case strings.ContainsAny(v, " \t"):
		c += "+space"
	case !isASCII(v):
		c += "+nonascii"
	}
	return c
}

func init() {
	fw.Register(&fw.Check{
		ID:        "C01",
		Technique: "runtime monitor: strconv/identity conversion oracle over the value read back (Value, pointer, Var, Called) after real Parse executions of hostile value texts in both spellings",
		Rule: "case = one target scalar option (8 kinds, pointer- or Var-defined) inside a random program/argv context, value from a hostile pool (arbitrary bytes, leading dashes, '=', whitespace, newlines, boundary and malformed numerals), spelled `--name=v` or `--name v`, 3 modes; " +
			"bool/increment repeated 1-4 times; optional-value options also without value. distinct = (kind, spelling, mode, value text); non-trivial = the value is not the option's default" + genDims,
		Cases: func(tier string) int { return tierN(tier, 100000, 8000000) },
		Run: func(seed uint64, idx int, tier string) *fw.Result {
			r := CaseRng(seed, "C01", idx)
			kind := c01Kinds[idx%len(c01Kinds)]
			mode := (idx / len(c01Kinds)) % 3
			attached := (idx/(3*len(c01Kinds)))%2 == 0
			pc := DefaultCfg()
			pc.Modes = []int{mode}
			pc.Unknowns = []int{2}
			pc.ForceKinds = []Kind{kind}
			pc.Aliases = 1
			p := GenProg(r, pc)
			target := p.Root.Opts[0]
			if (kind == KString || kind == KStringOpt) && idx%7 == 3 && target.Env == "" {
				// a list of enforced values in no particular order: every declared value must be read exactly as written
				target.Valid = []string{"default", "dev", "staging", "prod", "ERROR", "DEBUG", "3", "2", "1"}
				target.ValidSplit = idx%14 == 3
			}
			var targetItems []*Item
			var valText, cls string
			reps := 1
			sc := DefaultScen()
			sc.MaxItems = 5
			sc.TermPct = 15
			sc.InjectAt = r.Intn(4)
			sc.Inject = func(g *ScenGen, prev *Item) *Item {
				if g.Node().KeyTable()[target.Name] != target {
					return nil // inside a wrapper the target is not visible
				}
				it := &Item{Opt: target, OptID: target.ID, Key: target.Name, Typed: target.Name, Level: g.Node().Path}
				switch {
				case kind.IsFlag():
					it.K = IFlag
				case kind.IsOptional() && r.Chance(1, 4):
					it.K = IOptBare
					it.Open = true
					cls = "novalue"
				default:
					it.K = IValued
					it.Attached = attached
					valText = c01Value(r, kind, attached)
					if len(target.Valid) > 0 {
						valText = r.Pick(target.Valid)
					} else if kind.IsStr() && r.Chance(1, 10) {
						// the name of a command of the level: a value like any other text where a value is due
						var names []string
						for n := range g.Node().Children {
							names = append(names, n)
						}
						if len(names) > 0 {
							sortStrings(names)
							valText = r.Pick(names)
						}
					}
					it.Vals = []string{valText}
					cls = valueClass(kind, valText)
				}
				g.Render(it)
				targetItems = append(targetItems, it)
				return it
			}
			if kind.IsFlag() {
				reps = r.Range(1, 4)
				sc.MinItems = 5
			}
			s := GenScenario(r, p, sc)
			// further occurrences of a flag: appended at root-visible positions is not always possible; repeat the
			// token right after the first occurrence instead (flags are closed items).
			if kind.IsFlag() && len(targetItems) == 1 && reps > 1 {
				var items []*Item
				for _, it := range s.Items {
					items = append(items, it)
					if it == targetItems[0] {
						for k := 1; k < reps; k++ {
							c := *it
							items = append(items, &c)
						}
					}
				}
				s.Items = items
				s.Assemble()
			}
			t := Resolve(p)
			exp := Fold(t, s)
			oc := Run(p, s.Argv, false)
			doc := &CaseDoc{Prog: p, Argv: s.Argv, Items: s.Items, Note: fmt.Sprintf("target option #%d %s value %q", target.ID, target.Name, valText)}
			res := &fw.Result{Execs: 1, Sample: doc}
			if len(targetItems) == 0 {
				return res // target not placed (wrapper level): trivial case
			}
			res.Cells = []string{fmt.Sprintf("%s|%s|attached=%v|%s", kind, modeNames[mode], attached, cls)}
			if d := Universal(s.Argv, oc); len(d) > 0 {
				doc.Got = oc
				return viol("universal monitor", d, doc)
			}
			if d := Diff(t, oc, exp); len(d) > 0 {
				doc.Got, doc.Expect = oc, exp
				return viol("conversion oracle", d, doc)
			}
			res.Events = 4
			if !exp.Err {
				// direct restatement on the target (independent of the fold bookkeeping)
				want := ""
				switch {
				case kind == KBool:
					want = Enc(!target.DefB)
				case kind == KIncr:
					want = Enc(target.DefI + reps)
				case targetItems[0].K == IOptBare:
					want = DefaultEnc(target)
				default:
					v, ok := ConvVal(kind, valText)
					if !ok {
						doc.Got = oc
						return viol("conversion oracle", []string{fmt.Sprintf("malformed %s text %q produced no parse error", kind, valText)}, doc)
					}
					want = Enc(v)
				}
				// a later occurrence generated by the context may legitimately overwrite: only assert when the target is used once
				uses := 0
				for _, it := range s.Items {
					if it.Opt == target {
						uses++
					}
				}
				if uses == reps || (uses == 1) {
					got := oc.Ptrs[target.ID]
					if got != want || oc.Opts["|"+target.Name].Val != want || !oc.Opts["|"+target.Name].Called {
						doc.Got = oc
						return viol("conversion oracle", []string{fmt.Sprintf("target reads %s (Value %s, Called %v), expected %s", got, oc.Opts["|"+target.Name].Val, oc.Opts["|"+target.Name].Called, want)}, doc)
					}
				}
				if want != DefaultEnc(target) || kind.IsFlag() {
					res.Sig = fmt.Sprintf("%s|%d|%v|%q|%d", kind, mode, attached, valText, reps)
				}
			} else if exp.ErrClass == "conv" {
				res.Sig = fmt.Sprintf("%s|%d|%v|%q|err", kind, mode, attached, valText)
			}
			return res
		},
	})
}
