package px

import (
	"fmt"

	"verif/fw"
)

// C03 - remaining arguments are conserved.
// (a) universal subsequence monitor, (b) exact accounting against the intended-parse fold on AST-rendered argv
// with unique payloads (remaining must be exactly the unconsumed tokens, in order; consumed ones must show up
// in the option they were meant for).

func c03Cfg(r *Rng) (ProgCfg, ScenCfg) {
	pc := DefaultCfg()
	pc.ReqOrder = true
	pc.LonesomeDash = true
	pc.Valid = 10
	sc := DefaultScen()
	sc.MaxItems = 9
	sc.WPos = 5
	sc.WUnk = 3
	sc.WBundleUnk = 2
	sc.TermPct = 30
	return pc, sc
}

func init() {
	fw.Register(&fw.Check{
		ID:        "C03",
		Technique: "runtime monitor: conservation accounting of argv tokens against the intended-parse fold + subsequence monitor, on real Parse executions",
		Rule: "case = random program (tree depth<=2, wrappers, per-command unknown modes) + intended-parse item list rendered to argv with unique payloads; " +
			"distinct = distinct (modes, item-shape sequence) signatures; non-trivial = at least one token must end up in remaining and at least one must be consumed" + genDims,
		Assumptions: []string{"argv is rendered only where the documented rules make the intended parse unambiguous (DESIGN appendix A)"},
		Cases:       func(tier string) int { return tierN(tier, 60000, 5000000) },
		Run: func(seed uint64, idx int, tier string) *fw.Result {
			r := CaseRng(seed, "C03", idx)
			pc, sc := c03Cfg(r)
			// stratify the mode product by index
			pc.Modes = []int{idx % 3}
			pc.Unknowns = []int{(idx / 3) % 3}
			pc.ReqOrder = (idx/9)%3 == 0
			pc.Help = idx%4 == 1
			p := GenProg(r, pc)
			if pc.ReqOrder && idx%2 == 0 {
				p.ReqOrder = true // otherwise: the generator's choice (root and/or single commands)
			}
			s := GenScenario(r, p, sc)
			t := Resolve(p)
			exp := Fold(t, s)
			oc := Run(p, s.Argv, false)
			doc := &CaseDoc{Prog: p, Argv: s.Argv, Items: s.Items}
			res := &fw.Result{Execs: 1, Events: len(s.Argv) + len(oc.Remaining), Sample: doc, Cells: scenCells(s, "")}
			if d := Universal(s.Argv, oc); len(d) > 0 {
				doc.Got = oc
				return viol("universal monitor", d, doc)
			}
			d := Diff(t, oc, exp)
			if len(d) > 0 {
				doc.Got = oc
				doc.Expect = exp
				return viol("token accounting", d, doc)
			}
			if !exp.Err && len(exp.Remaining) > 0 && len(exp.Remaining) < len(s.Argv) {
				res.Sig = scenSig(s)
			}
			if exp.Err {
				res.Cells = append(res.Cells, "outcome=error:"+exp.ErrClass)
			} else {
				res.Cells = append(res.Cells, fmt.Sprintf("outcome=ok,remaining>0:%v", len(exp.Remaining) > 0))
			}
			return res
		},
	})
}
