package px

import (
	"fmt"
	"os"
	"os/exec"
	"sort"
	"strings"

	"verif/fw"
)

// C17 - completion offers exactly the applicable commands, options and values.

func c17Prog(r *Rng, idx int) *Prog {
	pc := DefaultCfg()
	pc.Help = true
	pc.Wrapper = true
	pc.CmdModes = true
	pc.MaxDepth = 2
	pc.RootOpts = [2]int{2, 6}
	pc.LonesomeDash = true
	pc.Modes = []int{idx % 3}
	pc.Unknowns = []int{(idx / 3) % 3}
	p := GenProg(r, pc)
	var deco func(c *Cmd)
	deco = func(c *Cmd) {
		for _, o := range c.Opts {
			if o.Kind == KString || o.Kind == KStringOpt || o.Kind == KStrings {
				switch r.Intn(5) {
				case 0:
					o.Suggested = []string{"sugb", "suga", "other", "su"}
				case 1:
					o.Valid = []string{"vala", "valb", "vx"}
					o.ValidSplit = o.ID%2 == 1
				case 2:
					o.SuggFn = []string{"dynb", "dyna", "sugz"}
				case 3:
					o.Suggested = []string{"sugq"}
					o.SuggFn = []string{"sugd"}
				}
			}
			if o.Kind == KMap && r.Chance(1, 2) {
				o.Suggested = []string{"os=", "arch=", "debug"} // key= suggestions of a map option
			}
			if false {
			}
		}
		if r.Chance(1, 2) {
			c.ArgComp = []string{"zeta", "alpha", "alpine", "co-static", "c", "nb\u00a0sp", "nb\u3000x"} // words may hold Unicode spaces the shell does not split on
		}
		if r.Chance(1, 4) {
			c.ArgCompFn = []string{"dyn-one", "dyn-two"}
			c.ArgCompFnSplit = len(c.Name)%2 == 1
		}
		for _, cc := range c.Cmds {
			deco(cc)
		}
	}
	deco(p.Root)
	return p
}

func stripCand(c string) string {
	c = strings.TrimRight(c, " ")
	if c == "-" {
		return "-"
	}
	c = strings.TrimPrefix(strings.TrimPrefix(c, "-"), "-")
	if i := strings.Index(c, "="); i >= 0 {
		c = c[:i]
	}
	return c
}

func c17LastWord(r *Rng, n *Node, pay *Payloads) (string, string) {
	keys := n.SortedKeys()
	var cmds []string
	for name := range n.Children {
		cmds = append(cmds, name)
	}
	sort.Strings(cmds)
	var withVals []*Opt
	for _, o := range n.Visible {
		if len(o.Suggested)+len(o.Valid)+len(o.SuggFn) > 0 {
			withVals = append(withVals, o)
		}
	}
	switch r.Intn(11) {
	case 0:
		return "", "empty"
	case 1:
		return "-", "dash"
	case 2:
		return "--", "dashdash"
	case 3, 4:
		if len(keys) > 0 {
			k := r.Pick(keys)
			if k != "-" {
				rs := Runes(k)
				return "--" + strings.Join(rs[:r.Range(1, len(rs))], ""), "option-prefix"
			}
		}
		return "--", "dashdash"
	case 5:
		if len(keys) > 0 {
			k := r.Pick(keys)
			if k != "-" {
				rs := Runes(k)
				return "-" + strings.Join(rs[:r.Range(1, len(rs))], ""), "option-prefix-single-dash"
			}
		}
		return "-", "dash"
	case 6:
		if r.Bool() && len(keys) > 0 {
			// three or more dashes: the typed text is `-...`, no declared name starts with that
			k := r.Pick(keys)
			if k != "-" {
				rs := Runes(k)
				return r.Pick([]string{"---", "----"}) + strings.Join(rs[:r.Range(0, len(rs))], ""), "option-prefix-three-dashes"
			}
		}
		return "--" + r.Pick([]string{"x", "zz", "q9"}), "option-prefix-nomatch"
	case 7, 8:
		if len(withVals) > 0 {
			o := withVals[r.Intn(len(withVals))]
			k := r.Pick(o.Keys())
			part := r.Pick([]string{"", "s", "su", "sug", "v", "val", "d", "dyn", "zz", "suga", "o", "a", "os", "de"})
			return "--" + k + "=" + part, "value"
		}
		// option without suggestions
		for _, o := range n.Visible {
			if !o.Kind.IsFlag() && o.Name != "-" {
				return "--" + o.Name + "=", "value-nosuggestions"
			}
		}
		return "", "empty"
	case 9:
		if len(cmds) > 0 {
			c := r.Pick(cmds)
			rs := Runes(c)
			return strings.Join(rs[:r.Range(1, len(rs))], ""), "command-prefix"
		}
		return "a", "word"
	}
	return r.Pick([]string{"a", "al", "z", "c", "co", "h", "he", "q", "dyn", "n", "nb", "nb\u00a0", "nb\u00a0s", "nb\u3000"}), "word"
}

// c17Expect - expected candidates computed from the spec.
type c17Exp struct {
	mode      string // option-names, list
	names     []string
	list      []string
	singleDec bool
}

func c17Expected(n *Node, last string, zsh bool) *c17Exp {
	if strings.HasPrefix(last, "-") {
		typed := strings.TrimPrefix(strings.TrimPrefix(last, "-"), "-")
		if !strings.Contains(typed, "=") {
			e := &c17Exp{mode: "option-names"}
			for _, k := range n.SortedKeys() {
				if k == "-" {
					if last == "-" {
						e.names = append(e.names, "-")
					}
					continue
				}
				if strings.HasPrefix(k, typed) {
					e.names = append(e.names, k)
				}
			}
			sort.Strings(e.names)
			return e
		}
		e := &c17Exp{mode: "list"}
		if !strings.HasPrefix(last, "--") {
			return e // `-name=partial`: statement speaks of `--name=`; nothing is offered by the documented rule
		}
		i := strings.Index(typed, "=")
		name, part := typed[:i], typed[i+1:]
		o, ok := n.KeyTable()[name]
		if !ok {
			return e
		}
		vals := append([]string{}, o.Suggested...)
		if len(o.Valid) > 0 {
			vals = append(append([]string{}, o.Valid...), o.Suggested...) // ValidValues sets the suggestion list, later SuggestedValues append
		}
		vals = append(vals, o.SuggFn...)
		for _, v := range vals {
			if strings.HasPrefix(v, part) {
				if zsh {
					e.list = append(e.list, "--"+name+"="+v)
				} else {
					e.list = append(e.list, v)
				}
			}
		}
		sort.Strings(e.list)
		return e
	}
	e := &c17Exp{mode: "list"}
	for name := range n.Children {
		if strings.HasPrefix(name, last) {
			e.list = append(e.list, name)
		}
	}
	for _, s := range n.Cmd.ArgComp {
		if strings.HasPrefix(s, last) {
			e.list = append(e.list, s)
		}
	}
	e.list = append(e.list, n.Cmd.ArgCompFn...)
	if n.IsHelp {
		// the built-in help command takes a topic: its static suggestions are the commands of the level it belongs to
		e.list = nil
		for name, c := range n.Parent.Children {
			if !c.IsHelp && strings.HasPrefix(name, last) {
				e.list = append(e.list, name)
			}
		}
	}
	sort.Strings(e.list)
	return e
}

func init() {
	fw.Register(&fw.Check{
		ID:        "C17",
		Technique: "runtime monitor: candidate-set oracle computed from the program spec, applied to the list written by the real completion path (in process through the verif setters, and by a real driver process leaving through os.Exit); acceptance replay of every offered option/command through the real parser",
		Rule: "case = random tree (aliases, suggested/valid values, dynamic value and argument completion functions, wrappers, help) x COMP_LINE = program word + AST-rendered earlier words (options with values, command tokens; closed items) + last word from {empty, `-`, `--`, prefix of a key with one or two dashes, non-matching prefix, `--key=partial`, command prefix, other word} x bash/zsh; extra whitespace between words; " +
			"distinct = (level, last-word class, target, item shapes); non-trivial = at least one candidate is expected. Domain (DESIGN N2): no require-order programs, earlier words end in a closed item and are written with `--` when the program's mode is not Normal." + genDims,
		Assumptions: []string{"COMP_LINE words contain no whitespace (the library splits COMP_LINE on whitespace)"},
		Cases:       func(tier string) int { return tierN(tier, 30000, 1000000) },
		Run: func(seed uint64, idx int, tier string) *fw.Result {
			r := CaseRng(seed, "C17", idx)
			p := c17Prog(r, idx)
			zsh := (idx/9)%2 == 1
			t := Resolve(p)
			sc := DefaultScen()
			sc.ClosedOnly = true
			sc.HostileVals = false
			sc.EmptyPos = false
			sc.TermPct = 0
			sc.MaxItems = 4
			sc.WPos = 1
			sc.WCmd = 4
			sc.Ranges = false
			// completion always walks the words in Normal mode
			pn := *p
			pn.Mode = 0
			s := GenScenario(r, &pn, sc)
			if p.Mode != 0 {
				s = primaryOrLong(s)
			}
			for _, it := range s.Items {
				for _, tok := range it.Tokens {
					if strings.ContainsAny(tok, " \t\n\r") || tok == "" {
						s.Items = nil
						s.Assemble()
					}
				}
			}
			exp := Fold(Resolve(&pn), s)
			if exp.Err {
				s.Items = nil
				s.Assemble()
				exp = Fold(t, s)
			}
			node := t.Nodes[exp.Node]
			if h, ok := node.Children[p.Help]; ok && p.Help != "" && r.Chance(1, 8) {
				// `... help <TAB>`: topic completion
				s.Items = append(s.Items, &Item{K: ICmd, Tok: p.Help, Tokens: []string{p.Help}, Level: node.Path})
				s.Assemble()
				node = h
				exp.Node = h.Path
			}
			last, lastClass := c17LastWord(r, node, NewPayloads(r))
			words := append(append([]string{"prog"}, s.Argv...), last)
			sep := " "
			if r.Chance(1, 6) {
				sep = r.Pick([]string{"  ", "\t", " \t "})
			}
			compLine := strings.Join(words, sep)
			prev := words[len(words)-2]
			args := []string{"prog", last, prev}
			target := "bash"
			if zsh {
				target = "zsh"
			}
			doc := &CaseDoc{Prog: p, Argv: args, Items: s.Items, Note: fmt.Sprintf("COMP_LINE=%q target=%s level=%q last-word class=%s", compLine, target, exp.Node, lastClass)}
			res := &fw.Result{Sample: doc, Cells: []string{fmt.Sprintf("%s|%s|depth=%d", target, lastClass, depthOf(node))}}
			co := RunCompletion(p, compLine, zsh, args)
			res.Execs++
			fail := func(m string) *fw.Result {
				doc.Extra = co
				return viol("completion", []string{m}, doc)
			}
			if co.Panic != "" {
				return fail("panic: " + co.Panic)
			}
			if len(co.ExitCodes) != 1 || co.ExitCodes[0] != 124 {
				return fail(fmt.Sprintf("completion did not leave through the exit path exactly once with status 124: %v", co.ExitCodes))
			}
			if len(co.FnCalls) > 0 {
				return fail(fmt.Sprintf("completion ran command function(s) %v", co.FnCalls))
			}
			if !co.RemNil || co.HasErr {
				return fail("Parse in completion mode returned a non-nil remaining list or an error")
			}
			out := strings.TrimSuffix(co.Stdout, "\n")
			var got []string
			if out != "" {
				got = strings.Split(out, "\n")
			}
			if !sort.StringsAreSorted(got) {
				return fail(fmt.Sprintf("candidates are not sorted: %q", got))
			}
			e := c17Expected(node, last, zsh)
			res.Events = len(got) + 2
			switch e.mode {
			case "option-names":
				names := map[string]bool{}
				for _, c := range got {
					if c != "-" && !strings.HasPrefix(c, "--") {
						return fail(fmt.Sprintf("option candidate %q is not written with two dashes", c))
					}
					names[stripCand(c)] = true
				}
				var gotNames []string
				for n := range names {
					gotNames = append(gotNames, n)
				}
				sort.Strings(gotNames)
				if !eqStrs(gotNames, e.names) {
					return fail(fmt.Sprintf("options offered %q, expected exactly the keys of level %q starting with the typed text: %q (raw candidates %q)", gotNames, exp.Node, e.names, got))
				}
				// a candidate is a key: `--k`, `--k=`; text behind the `=` is only the documented hint for the single remaining
				// option (`--k=<argname>` or `--k=` + one of that option's own suggested/valid values)
				for _, c := range got {
					body := strings.TrimPrefix(strings.TrimRight(c, " "), "--")
					i := strings.Index(body, "=")
					if c == "-" || i < 0 || i == len(body)-1 {
						continue
					}
					if len(e.names) != 1 {
						return fail(fmt.Sprintf("candidate %q carries a value although %d keys match the typed text (value hints belong to a single remaining option): %q", c, len(e.names), got))
					}
					k, v := body[:i], body[i+1:]
					ok := strings.HasPrefix(v, "<") && strings.HasSuffix(v, ">")
					if o := node.KeyTable()[k]; o != nil {
						for _, sv := range append(append([]string{}, o.Valid...), o.Suggested...) {
							if sv == v {
								ok = true
							}
						}
					}
					if !ok {
						return fail(fmt.Sprintf("candidate %q: %q is neither an argument hint nor a suggested/valid value of option %q (raw candidates %q)", c, v, k, got))
					}
				}
			case "list":
				g2 := make([]string, len(got))
				for i, c := range got {
					g2[i] = strings.TrimRight(c, " ")
				}
				if lastClass == "value" || lastClass == "value-nosuggestions" {
					// the statement fixes the values, not whether a shell gets them bare or as `--name=value`
					pre := last[:strings.Index(last, "=")+1]
					for i := range g2 {
						g2[i] = strings.TrimPrefix(g2[i], pre)
					}
					for i := range e.list {
						e.list[i] = strings.TrimPrefix(e.list[i], pre)
					}
					sort.Strings(g2)
					sort.Strings(e.list)
				}
				sort.Strings(g2)
				if !eqStrs(g2, e.list) && !(len(g2) == 0 && len(e.list) == 0) {
					return fail(fmt.Sprintf("candidates %q, expected %q", g2, e.list))
				}
			}
			// acceptance replay
			if e.mode == "option-names" {
				for _, c := range got {
					if strings.Contains(c, "<") {
						continue // documentation hint `--k=<value>`
					}
					name := stripCand(c)
					o := node.KeyTable()[name]
					tok := strings.TrimRight(c, " ")
					argv := append([]string{}, s.Argv...)
					if strings.HasSuffix(tok, "=") {
						v := "1"
						if o != nil && len(o.Valid) > 0 {
							v = o.Valid[0]
						}
						if o != nil && o.Kind == KMap {
							v = "k=v"
						}
						tok += v
					} else if i := strings.Index(tok, "="); i >= 0 && o != nil && (o.Kind.IsInt() || o.Kind.IsFloat() || o.Kind == KMap) {
						continue
					}
					argv = append(argv, tok)
					if p.Mode != 0 && tok == "-" {
						continue
					}
					oc := Run(p, argv, false)
					res.Execs++
					if oc.Panic != "" || (oc.HasErr && (strings.Contains(strings.ToLower(oc.Err), "unknown") || strings.Contains(strings.ToLower(oc.Err), "ambiguous"))) || (!oc.HasErr && !oc.Opts[exp.Node+"|"+name].Called && !node.IsHelp) {
						doc.Got = oc
						return fail(fmt.Sprintf("offered option %q is not accepted by the parser at that position (argv %q): %s%s", c, argv, oc.Err, oc.Panic))
					}
				}
			} else if !strings.HasPrefix(last, "-") {
				for _, c := range e.list {
					child, ok := node.Children[c]
					if !ok || child.IsHelp || !child.Cmd.HasFn {
						continue
					}
					argv := append(append([]string{}, s.Argv...), c)
					oc := Run(p, argv, true)
					res.Execs++
					if oc.HasErr || len(oc.Calls) != 1 || oc.Calls[0].Node != child.Path {
						doc.Got = oc
						return fail(fmt.Sprintf("offered command %q does not select %q when appended (argv %q): err %q calls %v", c, child.Path, argv, oc.Err, callNodes(oc.Calls)))
					}
				}
			}
			// real process, real os.Exit, for a sample of the cases
			if idx%32 == 0 {
				self, _ := os.Executable()
				work := os.Getenv("VERIF_WORK")
				if work == "" {
					work = os.TempDir()
				}
				f := fmt.Sprintf("%s/c17-%d.json", work, idx)
				WriteDriverReq(f, &DriverReq{Prog: p, Kind: "comp-exit", Argv: args, CompLine: compLine, Zsh: zsh})
				cmd := exec.Command(self, "-driver", f)
				var stderr strings.Builder
				cmd.Stderr = &stderr
				o, err := cmd.Output()
				os.Remove(f)
				res.Execs++
				code := 0
				if ee, ok := err.(*exec.ExitError); ok {
					code = ee.ExitCode()
				} else if err != nil {
					res.Inconclusive = "driver: " + err.Error()
				}
				if res.Inconclusive == "" {
					if code != 124 {
						return fail(fmt.Sprintf("driver process: exit status %d, expected 124 (stdout %q stderr %q)", code, o, stderr.String()))
					}
					if string(o) != co.Stdout {
						return fail(fmt.Sprintf("driver process wrote %q, in-process run wrote %q", o, co.Stdout))
					}
					if strings.Contains(stderr.String(), "FN-RAN") {
						return fail("driver process: a command function ran during completion")
					}
					res.Cells = append(res.Cells, "real-process-os.Exit")
				}
			}
			if len(got) > 0 {
				res.Sig = fmt.Sprintf("%s|%s|%s|%s", target, lastClass, exp.Node, scenSig(s))
			}
			return res
		},
	})
}

// primaryOrLong - every option occurrence in long spelling (keys as typed).
func primaryOrLong(s *Scenario) *Scenario {
	v := &Scenario{Prog: s.Prog, Term: s.Term, Tail: s.Tail}
	g := &scenGen{mode: 0}
	for _, it := range s.Items {
		c := *it
		if c.Opt != nil && c.Key != "-" && c.Short {
			c.Short = false
			c.Tokens = nil
			g.renderOpt(&c)
		}
		v.Items = append(v.Items, &c)
	}
	v.Assemble()
	return v
}
