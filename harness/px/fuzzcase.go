package px

import (
	"bytes"
	"fmt"
	"regexp"
	"strconv"
	"strings"

	"github.com/DavidGamba/go-getoptions"
)

// Fixed menu of valid program definitions for C19 (all kinds, modes, trees; independent of VERIF_SEED so that
// a fuzz corpus keeps its meaning).
var fuzzMenu []*Prog

func init() {
	for i := 0; i < 16; i++ {
		r := NewRng(uint64(7700 + i*131))
		pc := DefaultCfg()
		pc.Modes = []int{i % 3}
		pc.Unknowns = []int{(i / 3) % 3}
		pc.ReqOrder = i%5 == 4
		pc.Help = i%2 == 0
		pc.Required = []int{0, 0, 30}[i%3]
		pc.Env = 20
		pc.LonesomeDash = true
		pc.FnLess = true
		pc.FnErr = true
		pc.MaxDepth = 1 + i%3
		pc.RootOpts = [2]int{3, 9}
		pc.MaxMulti = 4
		p := GenProg(r, pc)
		if pc.ReqOrder {
			p.ReqOrder = true
		}
		if pc.Help {
			p.Help = "help"
		}
		if i == 3 {
			p.MapLower = true
		}
		for _, o := range p.Root.Opts {
			if o.Kind == KString && r.Chance(1, 2) {
				o.Suggested = []string{"sa", "sb"}
			}
			if o.Kind == KStringOpt && r.Chance(1, 2) {
				o.Valid = []string{"va", "vb"}
			}
			if o.Kind == KMap {
				o.Suggested = []string{"os=", "arch=", "debug"}
			}
			if o.Kind.IsMulti() && i%5 == 2 {
				o.Max = 1 << 62 // "unlimited"
			}
			if (o.Kind == KInt || o.Kind == KString || o.Kind == KStrings) && i%4 == 1 {
				o.ArgName = "n" + strings.Repeat("x", 95) // a synopsis entry wider than the wrapping column
			}
			if o.Kind == KStrings && r.Chance(1, 2) {
				o.SuggFn = []string{"dyn=", "dynb"}
			}
			// env-bound options read the variable the fuzz case sets
			if o.Env != "" {
				o.Env = "VERIF_FUZZ_ENV"
				o.EnvSet = false
			}
		}
		for _, c := range p.Root.Cmds {
			c.ArgComp = []string{"x1", "x2"}
		}
		// named synopsis arguments: none, one, two (the helpers are asked for more arguments than were named)
		switch i % 4 {
		case 1:
			p.Root.SynArgs = [][2]string{{"<src>", "where from"}}
		case 2:
			p.Root.SynArgs = [][2]string{{"<src>", "where from"}, {"<dst>", ""}}
		}
		fuzzMenu = append(fuzzMenu, p)
	}
}

// FuzzMenu - the menu (read-only).
func FuzzMenu() []*Prog { return fuzzMenu }

var bigRangeRe = regexp.MustCompile(`(-?\d+)\.\.(-?\d+)`)

// hasBigRange - an int range token with a span above 10^4 (excluded by the statement: a range is expanded in memory).
func hasBigRange(toks []string) bool {
	for _, t := range toks {
		for _, m := range bigRangeRe.FindAllStringSubmatch(t, -1) {
			a, e1 := strconv.Atoi(m[1])
			b, e2 := strconv.Atoi(m[2])
			if e1 != nil || e2 != nil {
				continue
			}
			if a < b && spanAbove(a, b, 10000) {
				return true
			}
		}
	}
	return false
}

// FuzzCase - decoded form of a byte string.
type FuzzCase struct {
	Spec   int      `json:"spec"`
	Entry  int      `json:"entry"`
	Tokens []string `json:"tokens"`
}

var fuzzEntries = []string{"parse", "parse+dispatch", "help", "completion-bash", "completion-zsh", "env+parse", "parse-nil"}

// DecodeFuzz - bytes -> case.
func DecodeFuzz(data []byte) *FuzzCase {
	c := &FuzzCase{}
	if len(data) > 0 {
		c.Spec = int(data[0]) % len(fuzzMenu)
	}
	if len(data) > 1 {
		c.Entry = int(data[1]) % len(fuzzEntries)
	}
	if len(data) > 2 {
		for _, t := range bytes.Split(data[2:], []byte{0}) {
			c.Tokens = append(c.Tokens, string(t))
		}
	}
	return c
}

// EncodeFuzz - case -> bytes.
func EncodeFuzz(c *FuzzCase) []byte {
	b := []byte{byte(c.Spec), byte(c.Entry)}
	for i, t := range c.Tokens {
		if i > 0 {
			b = append(b, 0)
		}
		b = append(b, []byte(strings.ReplaceAll(t, "\x00", ""))...)
	}
	return b
}

// ExecFuzz - runs one case against the real library; returns "" when the contract holds, else what broke.
// Contract (C19): no panic; a failed Parse returns (nil, err); completion leaves through the exit path.
func ExecFuzz(c *FuzzCase) (verdict string, skipped bool) {
	if hasBigRange(c.Tokens) {
		return "", true
	}
	p := fuzzMenu[c.Spec]
	switch fuzzEntries[c.Entry] {
	case "parse", "parse+dispatch", "parse-nil":
		argv := c.Tokens
		if argv == nil {
			argv = []string{}
		}
		var oc *Outcome
		if fuzzEntries[c.Entry] == "parse-nil" {
			oc = Run(p, nil, true)
		} else {
			oc = Run(p, argv, fuzzEntries[c.Entry] == "parse+dispatch")
		}
		if oc.Panic != "" {
			return "panic: " + oc.Panic, false
		}
		if oc.HasErr && !oc.RemNil {
			return "failed Parse returned a non-nil remaining list", false
		}
		if fuzzEntries[c.Entry] != "parse-nil" {
			if d := Universal(argv, oc); len(d) > 0 {
				return strings.Join(d, "; "), false
			}
		}
	case "env+parse":
		q := *p
		root := *p.Root
		q.Root = &root
		root.Opts = nil
		val := ""
		if len(c.Tokens) > 0 {
			val = c.Tokens[0]
		}
		for _, o := range p.Root.Opts {
			oo := *o
			if oo.Env != "" {
				oo.EnvSet, oo.EnvVal = true, val
			}
			root.Opts = append(root.Opts, &oo)
		}
		var rest []string
		if len(c.Tokens) > 1 {
			rest = c.Tokens[1:]
		}
		oc := Run(&q, rest, true)
		if oc.Panic != "" {
			return "panic: " + oc.Panic, false
		}
		if oc.HasErr && !oc.RemNil {
			return "failed Parse returned a non-nil remaining list", false
		}
	case "help":
		var msg string
		func() {
			defer func() {
				if r := recover(); r != nil {
					msg = fmt.Sprintf("panic: %v", r)
				}
			}()
			b := Build(p)
			defer b.Cleanup()
			func() {
				defer func() {
					if r := recover(); r != nil {
						msg = fmt.Sprintf("panic in Parse: %v", r)
					}
				}()
				b.Opt.Parse(append([]string{}, c.Tokens...))
			}()
			_ = b.Opt.Help()
			_ = b.Opt.Help(getoptions.HelpName, getoptions.HelpSynopsis, getoptions.HelpCommandList, getoptions.HelpOptionList, getoptions.HelpCommandInfo)
			_, _, _ = b.Opt.GetRequiredArg(c.Tokens)
			_, _, _ = b.Opt.GetRequiredArgInt(c.Tokens)
			_, _, _ = b.Opt.GetRequiredArgFloat64(c.Tokens)
			// a command function taking its arguments one by one, asking for more than there are and more than were named
			b2 := Build(p)
			defer b2.Cleanup()
			args := append([]string{}, c.Tokens...)
			if len(args) > 6 {
				args = args[:6]
			}
			for k, n := 0, len(args)+3; k < n; k++ {
				switch k % 3 {
				case 0:
					_, args, _ = b2.Opt.GetRequiredArg(args)
				case 1:
					_, args, _ = b2.Opt.GetRequiredArgInt(args, getoptions.HelpSynopsis)
				case 2:
					_, args, _ = b2.Opt.GetRequiredArgFloat64(args, getoptions.HelpNone)
				}
			}
		}()
		if msg != "" {
			return msg, false
		}
	case "completion-bash", "completion-zsh":
		line := "prog " + strings.Join(c.Tokens, " ")
		last, prev := "", "prog"
		if n := len(c.Tokens); n > 0 {
			last = c.Tokens[n-1]
			if n > 1 {
				prev = c.Tokens[n-2]
			}
		}
		if strings.TrimSpace(line) == "" {
			return "", true
		}
		co := RunCompletion(p, line, fuzzEntries[c.Entry] == "completion-zsh", []string{"prog", last, prev})
		if co.Panic != "" {
			return "panic: " + co.Panic, false
		}
		if len(co.ExitCodes) < 1 {
			return "completion returned without leaving through the exit path", false
		}
		for _, code := range co.ExitCodes {
			if code != 124 {
				return fmt.Sprintf("completion exit status %d", code), false
			}
		}
		if len(co.FnCalls) > 0 {
			return "completion ran a command function", false
		}
	}
	return "", false
}

// ExecFuzzBytes - convenience for the native fuzz targets.
func ExecFuzzBytes(data []byte) string {
	v, _ := ExecFuzz(DecodeFuzz(data))
	return v
}

// spanAbove - b-a > n without overflow (a < b).
func spanAbove(a, b, n int) bool {
	if a >= 0 || b < 0 {
		return b-a > n // same sign: no overflow
	}
	// a < 0 <= b
	if b > n {
		return true
	}
	return -a > n-b
}
