package px

import (
	"fmt"
	"strings"

	"verif/fw"
)

// C08 - unknown options are never silently ignored.

// deleteUnknowns - the scenario without its unknown tokens (bundles keep their known flags).
func deleteUnknowns(s *Scenario) *Scenario {
	v := &Scenario{Prog: s.Prog, Term: s.Term, Tail: s.Tail}
	for _, it := range s.Items {
		switch it.K {
		case IUnk:
			continue
		case IBundleUnk:
			c := *it
			tok := "-"
			for _, f := range it.Flags {
				tok += f.Typed
			}
			c.K = IRaw // rendered token of known members only; interpreted by the real parser, fold not used on this side
			c.Tokens = append([]string{tok}, it.Tokens[1:]...)
			if tok == "-" {
				continue
			}
			v.Items = append(v.Items, &c)
			continue
		}
		v.Items = append(v.Items, it)
	}
	v.Assemble()
	return v
}

func optState(oc *Outcome) []string {
	out := stateNoCalledAs(oc)
	for k, v := range oc.Opts {
		out = append(out, k+" as "+v.CalledAs)
	}
	sortStrings(out)
	return out
}

func init() {
	fw.Register(&fw.Check{
		ID:        "C08",
		Technique: "runtime monitor: per-mode rule over real Parse executions (error naming the first unknown / warning on Writer / token kept in remaining) + deletion metamorphism for the surrounding known options",
		Rule: "case = random tree (wrappers with UnsetOptions, per-command unknown modes) + argv with 1-3 unknown option tokens (long, short, bundled letters, attached values) at every position class, no `--` before them, require-order off; " +
			"distinct = (modes, item shapes, levels); non-trivial = at least one unknown token is present and at least one known option is used" + genDims,
		Cases: func(tier string) int { return tierN(tier, 60000, 4000000) },
		Run: func(seed uint64, idx int, tier string) *fw.Result {
			r := CaseRng(seed, "C08", idx)
			pc := DefaultCfg()
			pc.Modes = []int{idx % 3}
			pc.Unknowns = []int{(idx / 3) % 3}
			pc.Wrapper = true
			p := GenProg(r, pc)
			sc := DefaultScen()
			sc.WUnk = 4
			sc.WBundleUnk = 2
			sc.WCmd = 3
			sc.MaxItems = 8
			sc.TermPct = 20
			s := GenScenario(r, p, sc)
			t := Resolve(p)
			exp := Fold(t, s)
			oc := Run(p, s.Argv, false)
			doc := &CaseDoc{Prog: p, Argv: s.Argv, Items: s.Items}
			res := &fw.Result{Execs: 1, Sample: doc, Cells: scenCells(s, "")}
			if d := Universal(s.Argv, oc); len(d) > 0 {
				doc.Got = oc
				return viol("universal monitor", d, doc)
			}
			if d := Diff(t, oc, exp); len(d) > 0 {
				doc.Got, doc.Expect = oc, exp
				return viol("unknown-option rule", d, doc)
			}
			nUnk, nKnown := 0, 0
			for _, it := range s.Items {
				switch it.K {
				case IUnk, IBundleUnk:
					nUnk++
					lvl := "root"
					if it.Level != "" {
						lvl = "command"
						if t.Nodes[it.Level].Cmd.Unset {
							lvl = "wrapper"
						}
					}
					res.Cells = append(res.Cells, fmt.Sprintf("unknown@%s:%s", lvl, unkNames[t.Nodes[it.Level].Unknown]))
				case IFlag, IValued, IOptBare, IMulti:
					nKnown++
				}
			}
			res.Events = nUnk + len(oc.Remaining) + strings.Count(oc.Writer, "\n")
			if exp.Err && exp.ErrClass == "unknown" {
				// the error must be an unknown-option error
				if !strings.Contains(strings.ToLower(oc.Err), "unknown") {
					doc.Got = oc
					return viol("unknown-option rule", []string{"error is not an unknown-option error: " + oc.Err}, doc)
				}
			}
			// deletion metamorphism (only observable when Parse succeeds)
			deletable := true
			for i, it := range s.Items {
				// deleting an unknown token that ends the value intake of an open item would change the intended parse
				if (it.K == IUnk || it.K == IBundleUnk) && i > 0 && s.Items[i-1].Open {
					deletable = false
				}
			}
			if !exp.Err && nUnk > 0 && deletable {
				v := deleteUnknowns(s)
				oc2 := Run(p, v.Argv, false)
				res.Execs++
				a, b := optState(oc), optState(oc2)
				if oc2.HasErr || !eqStrs(a, b) {
					doc.Got, doc.Extra = oc2, v.Argv
					return viol("known options around unknown ones", []string{fmt.Sprintf("option state with unknown tokens differs from the state without them (err=%q): %v", oc2.Err, listDiff(a, b))}, doc)
				}
				// remaining without the unknown tokens must be what the shorter command line leaves
				var want []string
				unk := map[string]int{}
				for _, it := range s.Items {
					if it.K == IUnk || it.K == IBundleUnk {
						unk[it.Tokens[0]]++
					}
				}
				stopAt := len(oc.Remaining) - len(s.Tail)
				for i, x := range oc.Remaining {
					if i < stopAt && unk[x] > 0 {
						unk[x]--
						continue
					}
					want = append(want, x)
				}
				if !eqStrs(want, oc2.Remaining) && !(len(want) == 0 && len(oc2.Remaining) == 0) {
					doc.Got, doc.Extra = oc2, v.Argv
					return viol("known options around unknown ones", []string{fmt.Sprintf("remaining minus unknown tokens %q differs from remaining of the command line without them %q", want, oc2.Remaining)}, doc)
				}
				res.Events += len(a)
			}
			if nUnk > 0 && nKnown > 0 {
				res.Sig = scenSig(s)
			}
			return res
		},
	})
}
