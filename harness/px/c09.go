package px

import (
	"fmt"

	"verif/fw"
)

// C09 - require-order stops at the first non-option and hands the rest over verbatim.
// Relation: Outcome(P ++ [s] ++ T, require-order) == Outcome(P, no require-order) with remaining = [s] ++ T.

var c09Stops = []string{"positional", "unknown-long", "unknown-short", "dash", "hostile-plain", "empty", "mixed-bundle", "unknown+ambiguous-bundle"}

func init() {
	fw.Register(&fw.Check{
		ID:        "C09",
		Technique: "runtime monitor: metamorphic equality between a require-order execution of P ++ s ++ T and an execution of P without require-order (real Parse + Dispatch both sides), fold anchor on P",
		Rule: "case = P (known options with values of all kinds incl. optional-with-value and multi-value, command tokens; last item closed or open) ++ stop token s (positional, unknown long/short option, `-`, hostile plain text, empty string) ++ hostile tail T (the program's own option names, ambiguous prefixes, malformed values, `--`, command names); " +
			"all single-dash and unknown modes; distinct = (modes, stop kind, item shapes, tail length); non-trivial = T contains at least one token that would be interpreted without the stop" + genDims,
		Cases: func(tier string) int { return tierN(tier, 60000, 2500000) },
		Run: func(seed uint64, idx int, tier string) *fw.Result {
			r := CaseRng(seed, "C09", idx)
			stopKind := c09Stops[idx%len(c09Stops)]
			pc := DefaultCfg()
			pc.Modes = []int{(idx / 8) % 3}
			pc.Unknowns = []int{(idx / 24) % 3}
			pc.CmdModes = true
			pc.LonesomeDash = false
			p := GenProg(r, pc)
			sc := DefaultScen()
			sc.WPos, sc.WUnk, sc.WBundleUnk = 0, 0, 0
			cmdOnly := idx%3 == 2
			if cmdOnly {
				// require-order will be set on the final command only: positionals and unknown options given at the
				// levels above it are ordinary arguments there and must come out in front of the stop token
				sc.WPos, sc.WUnk = 2, 1
			}
			sc.TermPct = 0
			sc.MaxItems = 6
			sc.WCmd = 3
			sc.Bundle = false            // bundles are merged below, once P is final
			pre := GenScenario(r, p, sc) // P: options and commands only
			t := Resolve(p)
			g := &scenGen{r: r, cfg: sc, tree: t, node: t.Root, pay: NewPayloads(r), mode: p.Mode}
			for _, it := range pre.Items {
				if it.K == ICmd {
					g.node = g.node.Children[it.Tok]
				}
			}
			if cmdOnly {
				// nothing but options and commands at the level that gets require-order (and everywhere when that is the root)
				var keep []*Item
				for _, it := range pre.Items {
					if (it.K == IPos || it.K == IUnk) && (it.Level == g.node.Path || g.node.Path == "") {
						continue
					}
					keep = append(keep, it)
				}
				pre.Items = keep
				pre.Assemble()
			}
			lastOpen := len(pre.Items) > 0 && pre.Items[len(pre.Items)-1].Open
			typedOpen := lastOpen && pre.Items[len(pre.Items)-1].K == IMulti && pre.Items[len(pre.Items)-1].Opt.Kind != KStrings
			var stop string
			var mixed *Item
			switch stopKind {
			case "positional":
				stop = g.pay.Pos()
			case "unknown-long":
				for {
					n := g.pay.UnkName(true)
					if g.unkOK(n) {
						stop = "--" + n
						break
					}
				}
			case "unknown-short":
				it := g.genUnk()
				if it == nil {
					stop = g.pay.Pos()
				} else {
					stop = it.Tokens[0]
				}
			case "dash":
				stop = "-"
				if _, ro, _ := g.node.ResolveKey("-"); ro != nil {
					stop = g.pay.Pos()
				}
			case "hostile-plain":
				stop = g.r.Pick(HostilePlain)
			case "empty":
				stop = ""
			case "unknown+ambiguous-bundle":
				// Bundling: an unknown letter followed by a letter that is an ambiguous abbreviation: the token is the stop
				// token (its first letter matches nothing), the ambiguity behind it is never looked at
				stop = g.pay.Pos()
				if p.Mode == 1 {
					for _, k := range g.node.SortedKeys() {
						l := FirstRune(k)
						if _, _, amb := g.node.ResolveKey(l); len(amb) >= 2 {
							for _, u := range []string{"x", "y", "z"} {
								if g.unkOK(u) {
									stop = "-" + u + l
								}
							}
							break
						}
					}
				}
			case "mixed-bundle":
				// Bundling: a one-letter option taking a detached value, then an unknown letter: `-ax val`.
				// The statement does not say whether the known letters before the unknown one count; both readings
				// are accepted below, but the token must be handed over and `val` must not be both consumed and returned.
				stop = g.pay.Pos()
				if p.Mode == 1 {
					if it := g.genBundleUnk(); it != nil && len(it.Tokens) == 2 {
						mixed = it
						stop = it.Tokens[0]
					}
				}
			}
			// a plain stop token directly after an open item is a value of that option (statement): keep P closed then,
			// except behind typed multi-value options where an ill-formed element ends the intake.
			if lastOpen && IsPlain(stop) {
				if typedOpen {
					stop = g.pay.Pos()
				} else {
					// close the prefix with a flag-free separator: drop the open item
					pre.Items = pre.Items[:len(pre.Items)-1]
					pre.Assemble()
					g.node = t.Root
					for _, it := range pre.Items {
						if it.K == ICmd {
							g.node = g.node.Children[it.Tok]
						}
					}
					if n := len(pre.Items); n > 0 && pre.Items[n-1].Open {
						pre.Items = nil
						pre.Assemble()
						g.node = t.Root
					}
				}
			}
			if p.Mode == 1 {
				pre.Items = mergeBundles(r, pre.Items)
				pre.Assemble()
			}
			if _, isCmd := g.node.Children[stop]; isCmd {
				stop = g.pay.Pos()
			}
			tail := g.hostileTail(r.Range(0, 5))
			if mixed != nil {
				tail = append([]string{mixed.Tokens[1]}, tail...)
			}
			full := append(append(append([]string{}, pre.Argv...), stop), tail...)

			// require-order either on the root (every command inherits it at creation) or, wrapper style,
			// only on the command the stop token is given at
			pROp := CloneProg(p)
			where := "root"
			if c := pROp.CmdAt(g.node.Path); cmdOnly && g.node.Path != "" && c != nil {
				c.ReqOrder = true
				where = "command-only"
			} else {
				pROp.ReqOrder = true
			}
			pRO := *pROp
			expP := Fold(t, pre)
			doc := &CaseDoc{Prog: &pRO, Argv: full, Items: pre.Items, Note: "stop=" + stopKind}
			res := &fw.Result{Sample: doc, Cells: append(scenCells(pre, ""), "stop="+stopKind, "require_order_on="+where, fmt.Sprintf("last_item_open=%v", lastOpen && !IsPlain(stop) || typedOpen))}

			bP := Build(p)
			ocP := bP.RunParse(pre.Argv)
			res.Execs++
			if d := Diff(t, ocP, expP); len(d) > 0 {
				bP.Cleanup()
				doc.Got, doc.Expect, doc.Argv = ocP, expP, pre.Argv
				return viol("anchor (P without require-order)", d, doc)
			}
			if !ocP.HasErr {
				bP.RunDispatch(ocP, "m")
			}
			bP.Cleanup()
			bR := Build(&pRO)
			ocR := bR.RunParse(full)
			res.Execs++
			if d := Universal(full, ocR); len(d) > 0 {
				bR.Cleanup()
				doc.Got = ocR
				return viol("universal monitor", d, doc)
			}
			if !ocR.HasErr {
				bR.RunDispatch(ocR, "m")
			}
			bR.Cleanup()
			var d []string
			if ocP.HasErr {
				// P itself fails (missing required value etc. are not generated; conversion errors are not either)
				if !ocR.HasErr {
					d = append(d, fmt.Sprintf("P fails without require-order (%s) but P ++ s ++ T succeeds with it", ocP.Err))
				}
			} else {
				if ocR.HasErr {
					d = append(d, fmt.Sprintf("tokens behind the stop point caused an error: %s", ocR.Err))
				} else {
					want := append(append(append([]string{}, ocP.Remaining...), stop), tail...)
					if mixed != nil {
						// reading 1: the whole bundle is the stop token (nothing of it counts); reading 2: the known letters
						// before the unknown one count and the value token is consumed
						want2 := append(append(append([]string{}, ocP.Remaining...), stop), tail[1:]...)
						var val *Item
						for _, fl := range mixed.Flags {
							if fl.K == IValued {
								val = fl
							}
						}
						got := ocR.Opts[g.node.Path+"|"+val.Key]
						switch {
						case eqStrs(ocR.Remaining, want):
							if got.Val == Enc(mustConv(val.Opt.Kind, val.Vals[0])) && got.Val != ocP.Opts[g.node.Path+"|"+val.Key].Val {
								d = append(d, fmt.Sprintf("value token %q is both stored in option %q and returned in remaining %q", val.Vals[0], val.Key, ocR.Remaining))
							}
						case eqStrs(ocR.Remaining, want2):
							if got.Val != Enc(mustConv(val.Opt.Kind, val.Vals[0])) {
								d = append(d, fmt.Sprintf("value token %q is neither stored in option %q (%s) nor returned in remaining %q", val.Vals[0], val.Key, got.Val, ocR.Remaining))
							}
						default:
							d = append(d, fmt.Sprintf("remaining %q: expected the bundle with the unknown letter and everything after it verbatim: %q (or %q when the known letters before the unknown one are counted)", ocR.Remaining, want, want2))
						}
					} else {
						if !eqStrs(ocR.Remaining, want) {
							d = append(d, fmt.Sprintf("remaining %q, expected stop token and tail verbatim %q", ocR.Remaining, want))
						}
						if x, y := optState(ocP), optState(ocR); !eqStrs(x, y) {
							d = append(d, fmt.Sprintf("option state differs from parsing P alone: %v", listDiff(y, x)))
						}
					}
					if fmt.Sprint(callNodes(ocP.Calls)) != fmt.Sprint(callNodes(ocR.Calls)) {
						d = append(d, fmt.Sprintf("command selected differs: %v vs %v", callNodes(ocP.Calls), callNodes(ocR.Calls)))
					}
					if ocR.Writer != ocP.Writer {
						d = append(d, fmt.Sprintf("warnings caused by tokens at/behind the stop point: %q", ocR.Writer))
					}
				}
			}
			if len(d) > 0 {
				doc.Got = ocR
				doc.Extra = map[string]interface{}{"P": pre.Argv, "outcome_P": ocP}
				return viol("require-order relation", d, doc)
			}
			res.Events = len(ocR.Remaining) + len(ocR.Opts)
			interesting := false
			for _, x := range tail {
				if IsOptLooking(x) || x == "--" {
					interesting = true
				}
				if _, ok := g.node.Children[x]; ok {
					interesting = true
				}
			}
			if interesting {
				res.Sig = stopKind + "|" + scenSig(pre) + fmt.Sprintf("|T%d", len(tail))
			}
			return res
		},
	})
}

func mustConv(k Kind, v string) interface{} {
	x, _ := ConvVal(k, v)
	return x
}
