package px

import (
	"fmt"

	"verif/fw"
)

// C10 - Dispatch runs exactly the addressed command once, with its options and arguments.

// DiffDispatch - checks the instrumented CommandFn log against the intended command path.
func DiffDispatch(t *Tree, oc *Outcome, exp *Expect, marker string) []string {
	var d []string
	if oc.Panic != "" {
		return []string{"panic: " + oc.Panic}
	}
	n := t.Nodes[exp.Node]
	if !n.Cmd.HasFn {
		if len(oc.Calls) != 0 {
			d = append(d, fmt.Sprintf("addressed command %q has no function but %d user function(s) ran: %v", exp.Node, len(oc.Calls), callNodes(oc.Calls)))
		}
		if !oc.DispHasErr && oc.DispWriter == "" {
			d = append(d, fmt.Sprintf("addressed command %q has no function: Dispatch neither returned an error nor printed help", exp.Node))
		}
		return d
	}
	if len(oc.Calls) != 1 {
		return append(d, fmt.Sprintf("expected exactly one CommandFn invocation (of %q), got %d: %v (dispatch error %q)", exp.Node, len(oc.Calls), callNodes(oc.Calls), oc.DispErr))
	}
	c := oc.Calls[0]
	if c.Node != exp.Node {
		d = append(d, fmt.Sprintf("CommandFn of %q ran, expected %q", c.Node, exp.Node))
		return d
	}
	if c.Ctx != marker {
		d = append(d, fmt.Sprintf("CommandFn received context marker %q, expected the caller's %q", c.Ctx, marker))
	}
	if !eqStrs(c.Args, oc.Remaining) {
		d = append(d, fmt.Sprintf("CommandFn received args %q, Parse returned %q", c.Args, oc.Remaining))
	}
	kt := n.KeyTable()
	for k, obs := range c.View {
		o := kt[k]
		if o.ID < 0 {
			continue
		}
		if obs.Val != exp.Vals[o.ID] {
			d = append(d, fmt.Sprintf("view given to %q: Value(%q) = %s, expected %s", c.Node, k, obs.Val, exp.Vals[o.ID]))
		}
		if obs.Called != exp.Called[o.ID] {
			d = append(d, fmt.Sprintf("view given to %q: Called(%q) = %v, expected %v", c.Node, k, obs.Called, exp.Called[o.ID]))
		}
		if obs.CalledAs != exp.CalledAs[o.ID] {
			d = append(d, fmt.Sprintf("view given to %q: CalledAs(%q) = %q, expected %q", c.Node, k, obs.CalledAs, exp.CalledAs[o.ID]))
		}
	}
	if len(c.View) != len(kt) {
		d = append(d, fmt.Sprintf("view has %d keys, level has %d", len(c.View), len(kt)))
	}
	if n.Cmd.FnErr {
		if !oc.DispFnErr {
			d = append(d, fmt.Sprintf("CommandFn error was not returned by Dispatch (got %q)", oc.DispErr))
		}
	} else if oc.DispHasErr {
		d = append(d, fmt.Sprintf("Dispatch returned %q although the CommandFn returned nil", oc.DispErr))
	}
	return d
}

func callNodes(cs []FnCall) []string {
	var out []string
	for _, c := range cs {
		out = append(out, c.Node)
	}
	return out
}

func init() {
	fw.Register(&fw.Check{
		ID:        "C10",
		Technique: "runtime monitor: instrumented CommandFns (who ran, how often, ctx, args, option view) checked against the intended command path of AST-rendered argv on real Parse+Dispatch executions",
		Rule: "case = random command tree (depth<=3, fan-out<=3, inherited options, UnsetOptions wrappers, commands without CommandFn, failing CommandFns) + argv with options before/after command tokens, command names used as option values, after `--` and after the require-order stop; " +
			"distinct = (modes, item shapes, levels); non-trivial = at least one command token selects a command and at least one option is visible in the view" + genDims,
		Cases: func(tier string) int { return tierN(tier, 60000, 4000000) },
		Run: func(seed uint64, idx int, tier string) *fw.Result {
			r := CaseRng(seed, "C10", idx)
			pc := DefaultCfg()
			pc.MaxDepth = 3
			pc.FnLess = true
			pc.FnErr = true
			pc.ReqOrder = idx%4 == 0
			pc.Modes = []int{idx % 3}
			pc.Unknowns = []int{2, 1}[(idx/3)%2 : (idx/3)%2+1]
			pc.RootOpts = [2]int{1, 4}
			pc.Help = idx%5 == 0
			p := GenProg(r, pc)
			if pc.ReqOrder && (idx/4)%2 == 0 {
				p.ReqOrder = true // otherwise: the generator's choice (root and/or single commands)
			}
			sc := DefaultScen()
			sc.WCmd = 5
			sc.WUnk = 1
			sc.CmdAsValue = true
			sc.MaxItems = 8
			sc.TermPct = 30
			s := GenScenario(r, p, sc)
			t := Resolve(p)
			exp := Fold(t, s)
			marker := fmt.Sprintf("mk-%d", idx)
			b := Build(p)
			defer b.Cleanup()
			oc := b.RunParse(s.Argv)
			doc := &CaseDoc{Prog: p, Argv: s.Argv, Items: s.Items}
			res := &fw.Result{Execs: 1, Sample: doc, Cells: scenCells(s, "")}
			if d := Universal(s.Argv, oc); len(d) > 0 {
				doc.Got = oc
				return viol("universal monitor", d, doc)
			}
			if d := Diff(t, oc, exp); len(d) > 0 {
				doc.Got, doc.Expect = oc, exp
				return viol("parse anchor", d, doc)
			}
			if exp.Err {
				return res
			}
			b.RunDispatch(oc, marker)
			res.Execs++
			res.Events = len(oc.Calls) + 1
			if d := DiffDispatch(t, oc, exp, marker); len(d) > 0 {
				doc.Got, doc.Expect = oc, exp
				return viol("dispatch monitor", d, doc)
			}
			n := t.Nodes[exp.Node]
			res.Cells = append(res.Cells, fmt.Sprintf("target:depth=%d,fn=%v,wrapper=%v", depthOf(n), n.Cmd.HasFn, n.Cmd.Unset))
			if exp.Node != "" && len(n.Visible) > 0 {
				res.Sig = scenSig(s)
			}
			return res
		},
	})
}

func depthOf(n *Node) int {
	d := 0
	for n.Parent != nil {
		d++
		n = n.Parent
	}
	return d
}
