package px

import (
	"fmt"
	"strconv"
	"strings"

	"verif/fw"
)

// C02 - multi-value options consume the right tokens and keep every value in order.
// Local model = the statement, literally: attached value counts as one; below min every token is taken
// (an option-looking one or the end of input is an error); between min and max intake stops at the end, at an
// option-looking token, at `--`, or at a token that is not well-formed for the element type.

var c02Kinds = []Kind{KStrings, KInts, KFloats, KMap}

// wellFormed - is the token a well-formed element for the kind (the test the statement names).
func wellFormed(k Kind, tok string) bool {
	switch k {
	case KInts:
		_, err := strconv.Atoi(tok)
		return err == nil
	case KFloats:
		_, err := strconv.ParseFloat(tok, 64)
		return err == nil
	case KMap:
		return strings.Contains(tok, "=")
	}
	return true
}

// follower vocabulary
func c02Token(r *Rng, k Kind, pay *Payloads, class int) string {
	switch class {
	case 0: // well-formed element
		return pay.ValueFor(k)
	case 1: // number
		return pay.Int()
	case 2: // float
		return pay.Float()
	case 3: // key=value
		return r.Pick([]string{pay.KV(), "K" + pay.Int() + "=a=b", "K" + pay.Int() + "=", "=v" + pay.Int(), "dup=" + pay.Int(), "dup=" + pay.Str(), "DUP=x" + pay.Int()})
	case 4: // plain word
		return pay.Pos()
	case 5: // known flag
		return "--fl"
	case 6: // unknown option
		return "--zz" + pay.Int()
	case 7:
		return "-"
	case 8:
		return "--"
	case 9: // command name
		return "cmd"
	case 10: // int range
		a := r.Range(0, 30)
		switch r.Intn(6) {
		case 0:
			return fmt.Sprintf("%d..%d", a, a) // a == b: unasserted
		case 1:
			return fmt.Sprintf("%d..%d", a+3, a) // a > b: unasserted
		}
		return fmt.Sprintf("%d..%d", a, a+r.Range(1, 6))
	case 11: // another occurrence of the option, attached
		return "--multi=" + pay.ValueFor(k)
	case 12: // another occurrence, detached
		return "--multi"
	case 13: // hostile plain
		return r.Pick(HostilePlain)
	case 14: // Bundling: the option as a letter of a bundle, with flags and another argument-taking letter around it
		return r.Pick([]string{"-m", "-fm", "-mf", "-sm", "-ms", "-fsm", "-mm", "-smf"})
	case 15: // the empty string: a well-formed string element, not a number, not key=value, not option-looking
		return ""
	case 16: // a mistyped option with three dashes: option-looking, never a value
		return "---zz" + pay.Int()
	}
	return pay.Pos()
}

const c02NClasses = 17

type c02Model struct {
	items      []*Item
	unasserted bool
	termAt     int
}

// c02Interpret - the statement as a tiny interpreter over the restricted vocabulary.
func c02Interpret(t *Tree, multi *Opt, argv []string) (*Scenario, bool) {
	s := &Scenario{Prog: t.Prog}
	node := t.Root
	unasserted := false
	i := 0
	for i < len(argv) {
		tok := argv[i]
		switch {
		case tok == "--":
			s.Term = true
			s.Tail = append([]string{}, argv[i+1:]...)
			s.Argv = argv
			return s, unasserted
		case tok == "--fl":
			s.Items = append(s.Items, &Item{K: IFlag, Opt: node.KeyTable()["fl"], Key: "fl", Typed: "fl", Tokens: []string{tok}, Level: node.Path})
			i++
		case tok == "--multi" || strings.HasPrefix(tok, "--multi="):
			it := &Item{K: IMulti, Opt: multi, Key: "multi", Typed: "multi", Level: node.Path, Tokens: []string{tok}}
			consumed := 0
			if strings.HasPrefix(tok, "--multi=") {
				it.Attached = true
				it.Vals = append(it.Vals, tok[len("--multi="):])
				consumed = 1
			}
			i++
			missing := false
			for consumed < multi.Min {
				if i >= len(argv) || IsOptLooking(argv[i]) {
					missing = true
					break
				}
				it.Vals = append(it.Vals, argv[i])
				it.Tokens = append(it.Tokens, argv[i])
				consumed++
				i++
			}
			if missing {
				it.K = IRaw // marker: error expected
				s.Items = append(s.Items, it)
				s.Argv = argv
				return s, unasserted
			}
			for consumed < multi.Max {
				if i >= len(argv) || IsOptLooking(argv[i]) || argv[i] == "--" || !wellFormed(multi.Kind, argv[i]) {
					break
				}
				it.Vals = append(it.Vals, argv[i])
				it.Tokens = append(it.Tokens, argv[i])
				consumed++
				i++
			}
			// ranges with a >= b in accepted positions: statement silent
			if multi.Kind == KInts {
				for j, v := range it.Vals {
					if strings.Contains(v, "..") && (j < multi.Min || (j == 0 && it.Attached)) {
						parts := strings.SplitN(v, "..", 2)
						a, e1 := strconv.Atoi(parts[0])
						b, e2 := strconv.Atoi(parts[1])
						if e1 == nil && e2 == nil && a >= b {
							unasserted = true
						}
					}
				}
			}
			s.Items = append(s.Items, it)
		case t.Prog.Mode == 1 && isC02Bundle(tok):
			// Bundling: letters are handled left to right, every letter that takes arguments takes them from the tokens that follow
			i++
			failed := false
			for _, l := range tok[1:] {
				switch l {
				case 'f':
					s.Items = append(s.Items, &Item{K: IFlag, Opt: node.KeyTable()["f"], Key: "f", Typed: "f", Level: node.Path})
				case 's':
					if i >= len(argv) || IsOptLooking(argv[i]) {
						failed = true
						break
					}
					s.Items = append(s.Items, &Item{K: IValued, Opt: node.KeyTable()["s"], Key: "s", Typed: "s", Vals: []string{argv[i]}, Level: node.Path})
					i++
				case 'm':
					it := &Item{K: IMulti, Opt: multi, Key: "m", Typed: "m", Level: node.Path}
					consumed := 0
					for consumed < multi.Min {
						if i >= len(argv) || IsOptLooking(argv[i]) {
							failed = true
							break
						}
						it.Vals = append(it.Vals, argv[i])
						consumed++
						i++
					}
					if failed {
						break
					}
					for consumed < multi.Max {
						if i >= len(argv) || IsOptLooking(argv[i]) || argv[i] == "--" || !wellFormed(multi.Kind, argv[i]) {
							break
						}
						it.Vals = append(it.Vals, argv[i])
						consumed++
						i++
					}
					if multi.Kind == KInts {
						for j, v := range it.Vals {
							if strings.Contains(v, "..") && j < multi.Min {
								parts := strings.SplitN(v, "..", 2)
								a, e1 := strconv.Atoi(parts[0])
								b, e2 := strconv.Atoi(parts[1])
								if e1 == nil && e2 == nil && a >= b {
									unasserted = true
								}
							}
						}
					}
					s.Items = append(s.Items, it)
				}
				if failed {
					break
				}
			}
			if failed {
				s.Items = append(s.Items, &Item{K: IRaw, Tokens: []string{tok}})
				s.Argv = argv
				return s, unasserted
			}
		case tok == "-" || IsOptLooking(tok):
			name := strings.TrimLeft(tok, "-")
			if tok == "-" {
				name = "-"
			}
			if strings.HasPrefix(tok, "---") {
				name = "\x00" + name
			}
			s.Items = append(s.Items, &Item{K: IUnk, UnkNames: []string{name}, Tokens: []string{tok}, Level: node.Path})
			i++
		default:
			if c, ok := node.Children[tok]; ok {
				s.Items = append(s.Items, &Item{K: ICmd, Tok: tok, Tokens: []string{tok}, Level: node.Path})
				node = c
			} else {
				s.Items = append(s.Items, &Item{K: IPos, Tok: tok, Tokens: []string{tok}, Level: node.Path})
			}
			i++
		}
	}
	s.Argv = argv
	return s, unasserted
}

func c02Prog(kind Kind, min, max, mode, unknown int, useVar bool) *Prog {
	multi := &Opt{ID: 0, Kind: kind, Name: "multi", Aliases: []string{"m"}, Min: min, Max: max, UseVar: useVar}
	fl := &Opt{ID: 1, Kind: KBool, Name: "fl", Aliases: []string{"f"}}
	str := &Opt{ID: 2, Kind: KString, Name: "str", Aliases: []string{"s"}}
	return &Prog{Mode: mode, Unknown: unknown, Root: &Cmd{Unknown: -1, HasFn: true, Opts: []*Opt{multi, fl, str},
		Cmds: []*Cmd{{Name: "cmd", Unknown: -1, HasFn: true}}}}
}

type c02Case struct {
	kind          Kind
	min, max      int
	attached      bool
	mode, unknown int
	argv          []string
	grid          bool
	cell          string
}

var c02MinMax = [][2]int{{1, 1}, {1, 2}, {1, 3}, {1, 4}, {2, 2}, {2, 3}, {2, 4}, {3, 3}, {3, 4}, {4, 4}, {1, 9}, {2, 1 << 62}} // the last one: max used as "unlimited"

// grid size: kind(4) x minmax(12) x attached(2) x nPre(0..3 well-formed before the probe) x probe class(17) x position(2)
const c02Grid = 4 * 12 * 2 * 4 * c02NClasses * 2 // kind x (min,max) x attached x pre x probe x position

func c02Build(seed uint64, idx int, tier string) *c02Case {
	r := CaseRng(seed, "C02", idx)
	pay := NewPayloads(r)
	c := &c02Case{}
	if idx < c02Grid {
		g := idx
		c.grid = true
		c.kind = c02Kinds[g%4]
		g /= 4
		mm := c02MinMax[g%12]
		g /= 12
		c.attached = g%2 == 0
		g /= 2
		nPre := g % 4
		g /= 4
		probe := g % c02NClasses
		g /= c02NClasses
		pos := g % 2
		c.min, c.max = mm[0], mm[1]
		c.mode = r.Intn(3)
		if probe == 14 {
			c.mode = 1
		}
		c.unknown = []int{2, 2, 1, 0}[r.Intn(4)]
		if pos == 1 {
			c.argv = append(c.argv, pay.Pos())
		}
		if c.attached {
			c.argv = append(c.argv, "--multi="+pay.ValueFor(c.kind))
		} else {
			c.argv = append(c.argv, "--multi")
		}
		for i := 0; i < nPre; i++ {
			c.argv = append(c.argv, pay.ValueFor(c.kind))
		}
		c.argv = append(c.argv, c02Token(r, c.kind, pay, probe))
		// one trailing token so that "interpreted normally" is observable
		c.argv = append(c.argv, c02Token(r, c.kind, pay, []int{4, 5, 9, 0}[r.Intn(4)]))
		c.cell = fmt.Sprintf("grid|%s|min=%d,max=%d|attached=%v|pre=%d|probe=%d", c.kind, c.min, c.max, c.attached, nPre, probe)
		return c
	}
	// random runs
	c.kind = c02Kinds[r.Intn(4)]
	mm := c02MinMax[r.Intn(len(c02MinMax))]
	c.min, c.max = mm[0], mm[1]
	c.mode = r.Intn(3)
	c.unknown = []int{2, 2, 1, 0}[r.Intn(4)]
	n := r.Range(1, 9)
	occ := r.Range(1, 3)
	for o := 0; o < occ; o++ {
		if r.Chance(1, 3) {
			c.argv = append(c.argv, c02Token(r, c.kind, pay, []int{4, 5, 6, 13}[r.Intn(4)]))
		}
		if c.mode == 1 && r.Chance(1, 2) {
			c.argv = append(c.argv, c02Token(r, c.kind, pay, 14))
		} else if r.Bool() {
			at := c02Token(r, c.kind, pay, []int{0, 0, 0, 10, 13, 3}[r.Intn(6)])
			if c.kind == KInts && r.Chance(1, 6) {
				a := -r.Range(1, 30) // signed bounds are fine behind `=` (detached, `-3..-1` would look like an option)
				at = fmt.Sprintf("%d..%d", a, a+r.Range(1, 6))
				if r.Chance(1, 3) {
					at = fmt.Sprintf("%d..%s", a, r.Pick([]string{"x", "", "1x", "2.5", "0x3"})) // a bound that is not a number: not an int range, not an int
				}
			}
			c.argv = append(c.argv, "--multi="+at)
			c.attached = true
		} else {
			c.argv = append(c.argv, "--multi")
		}
		for i := 0; i < n/occ+1; i++ {
			cl := r.Weighted([]int{8, 2, 2, 2, 2, 2, 1, 1, 1, 1, 2, 1, 1, 2, 1, 1, 1})
			if cl == 14 && c.mode != 1 {
				cl = 4 // bundles only exist in Bundling mode
			}
			c.argv = append(c.argv, c02Token(r, c.kind, pay, cl))
		}
	}
	c.cell = fmt.Sprintf("random|%s|occ=%d", c.kind, occ)
	return c
}

func init() {
	fw.Register(&fw.Check{
		ID:             "C02",
		ExhaustivePart: "the grid kind(4) x (min,max)(12) x attached(2) x preceding elements(0-3) x probe class(17) x position(2) is enumerated completely in both tiers (payload texts are sampled)",
		Technique:      "runtime monitor: local consumption model (the statement, literally) deciding which tokens a multi-value occurrence takes, compared with what the real Parse stored (values in order, conversions, ranges, map split) and left over (remaining, flag, command)",
		Rule: "quick enumerates the grid kind(4) x (min,max)(12) x attached(2) x well-formed elements before the probe(0-3) x probe token class(17: element, number, float, key=value, word, known flag, unknown option, `-`, `--`, command name, int range, further occurrence attached/detached, hostile text, Bundling-mode bundle holding the option with flags and another argument-taking letter, the empty string, a three-dash option) x position(2) completely; " +
			"thorough adds random runs of up to 3 occurrences with up to 9 following tokens. distinct = distinct argv shapes; non-trivial = the occurrence takes at least one detached token or stops before max. Definitions with min<1 or max<min must panic (sub-check).",
		Assumptions: []string{"int ranges a..b with a>=b in accepted positions are generated but only the universal monitors apply (statement silent)"},
		Cases:       func(tier string) int { return tierN(tier, c02Grid+40000, c02Grid+6000000) },
		Run: func(seed uint64, idx int, tier string) *fw.Result {
			c := c02Build(seed, idx, tier)
			p := c02Prog(c.kind, c.min, c.max, c.mode, c.unknown, idx%2 == 0)
			if idx%6 == 2 {
				// bound to a variable that is set: GetEnv is documented as a no-op for multi-value options
				m := p.Root.Opts[0]
				m.Env, m.EnvSet = "VERIF_E0", true
				m.EnvVal = map[Kind]string{KStrings: "fromenv", KInts: "77", KFloats: "7.5", KMap: "envk=envv"}[c.kind]
			}
			if c.kind == KMap && idx%5 == 3 {
				p.MapLower, p.LateMapLower = true, idx%10 == 3 // keys folded to lower case, the setter called before or after the command exists
			}
			t := Resolve(p)
			s, unasserted := c02Interpret(t, p.Root.Opts[0], c.argv)
			oc := Run(p, c.argv, false)
			doc := &CaseDoc{Prog: p, Argv: c.argv, Items: s.Items}
			res := &fw.Result{Execs: 1, Sample: doc, Cells: []string{c.cell}}
			if d := Universal(c.argv, oc); len(d) > 0 {
				doc.Got = oc
				return viol("universal monitor", d, doc)
			}
			if unasserted {
				res.Cells = append(res.Cells, "unasserted:range a>=b")
				return res
			}
			// missing mandatory argument
			if n := len(s.Items); n > 0 && s.Items[n-1].K == IRaw {
				if !oc.HasErr {
					doc.Got = oc
					return viol("intake model", []string{fmt.Sprintf("occurrence %q has fewer than min=%d arguments but Parse succeeded", s.Items[n-1].Tokens, c.min)}, doc)
				}
				res.Sig = "missing|" + c.cell
				return res
			}
			exp := Fold(t, s)
			if d := Diff(t, oc, exp); len(d) > 0 {
				doc.Got, doc.Expect = oc, exp
				return viol("intake model", d, doc)
			}
			res.Events = len(c.argv)
			for _, it := range s.Items {
				if it.K == IMulti && (len(it.Tokens) > 1 || len(it.Vals) < c.max) {
					res.Sig = c.cell + "|" + shapeOf(c.argv)
				}
			}
			// definition sub-check: invalid bounds must be refused at definition
			if c.grid && idx%97 == 0 {
				for _, bad := range [][2]int{{0, 1}, {-1, 2}, {2, 1}, {0, 0}, {3, 2}} {
					bp := c02Prog(c.kind, bad[0], bad[1], 0, 0, false)
					o := Run(bp, nil, false)
					res.Execs++
					if !strings.HasPrefix(o.Panic, "definition:") {
						return viol("definition bounds", []string{fmt.Sprintf("%s with (min,max)=(%d,%d) was accepted at definition", c.kind, bad[0], bad[1])}, doc)
					}
				}
				res.Cells = append(res.Cells, "definition-panics-on-invalid-bounds")
			}
			return res
		},
	})
}

// shapeOf - argv with payload digits removed.
func shapeOf(argv []string) string {
	var sb strings.Builder
	for _, a := range argv {
		for _, ch := range a {
			if ch >= '0' && ch <= '9' {
				continue
			}
			sb.WriteRune(ch)
		}
		sb.WriteByte(' ')
	}
	return sb.String()
}

// isC02Bundle - a single-dash token made of the one-letter keys of the C02 program (f flag, s string, m the multi-value option).
func isC02Bundle(tok string) bool {
	if len(tok) < 2 || tok[0] != '-' || tok[1] == '-' {
		return false
	}
	for _, l := range tok[1:] {
		if l != 'f' && l != 's' && l != 'm' {
			return false
		}
	}
	return strings.Contains(tok, "m")
}
