package px

import (
	"bytes"

	"encoding/gob"
	"encoding/json"
	"fmt"
	"github.com/DavidGamba/go-getoptions"
	"os"
	"os/exec"
	"strings"

	"verif/fw"
)

// C20 - same definition and input always give the same result and the same text.

// FullTuple - everything observable of one scenario, as canonical JSON.
type FullTuple struct {
	Parse    *Outcome     `json:"parse,omitempty"`
	Help     string       `json:"help,omitempty"`
	Comp     *CompOutcome `json:"comp,omitempty"`
	HelpPath []string     `json:"-"`
}

// DriverReq - request understood by `vcheck -driver`.
type DriverReq struct {
	Prog     *Prog    `json:"prog"`
	Kind     string   `json:"kind"` // parse, help, comp
	Argv     []string `json:"argv"`
	Dispatch bool     `json:"dispatch"`
	CompLine string   `json:"comp_line"`
	Zsh      bool     `json:"zsh"`
	Sections []int    `json:"sections,omitempty"` // Help(sections...) with this list
}

// Observe - one execution of a request, canonical JSON of what was observed.
func Observe(q *DriverReq) string {
	var t FullTuple
	switch q.Kind {
	case "parse":
		t.Parse = Run(q.Prog, q.Argv, q.Dispatch)
	case "help":
		if len(q.Sections) > 0 {
			t.Help = refHelpSections(q.Prog, q.Argv, q.Sections)
		} else {
			t.Help = refHelp(q.Prog, q.Argv)
		}
	case "comp":
		t.Comp = RunCompletion(q.Prog, q.CompLine, q.Zsh, q.Argv)
	}
	b, _ := json.Marshal(t)
	return string(b)
}

// DriverMain - `vcheck -driver <file>`: observe in a separate process.
func DriverMain(path string) int {
	f, err := os.Open(path)
	if err != nil {
		fmt.Fprintln(os.Stderr, err)
		return 3
	}
	var q DriverReq
	// gob, not JSON: option names and values may hold bytes that are not valid UTF-8
	if err := gob.NewDecoder(f).Decode(&q); err != nil {
		fmt.Fprintln(os.Stderr, err)
		return 3
	}
	f.Close()
	if q.Kind == "comp-exit" {
		// the real exit path: the library calls os.Exit itself
		b := Build(q.Prog)
		os.Setenv("COMP_LINE", q.CompLine)
		if q.Zsh {
			os.Setenv("ZSHELL", "true")
		} else {
			os.Unsetenv("ZSHELL")
		}
		b.Opt.Parse(q.Argv)
		if len(b.Calls) > 0 {
			fmt.Fprintln(os.Stderr, "FN-RAN")
		}
		fmt.Println("PARSE-RETURNED")
		return 0
	}
	fmt.Print(Observe(&q))
	return 0
}

func c20Prog(r *Rng, idx int) *Prog {
	pc := DefaultCfg()
	pc.Required = 45
	pc.Help = true
	pc.RootOpts = [2]int{4, 8}
	pc.CmdOpts = [2]int{2, 4}
	pc.MaxDepth = 2
	pc.MaxFan = 4
	pc.Aliases = 2
	pc.Modes = []int{idx % 3}
	pc.Unknowns = []int{(idx / 3) % 3}
	pc.Wrapper = false
	p := GenProg(r, pc)
	p.Help = "help"
	// at least two required options at the root and in the first command
	nReq := 0
	for _, o := range p.Root.Opts {
		if o.Required {
			nReq++
		}
	}
	for _, o := range p.Root.Opts {
		if nReq >= 2 {
			break
		}
		if !o.Required {
			o.Required = true
			nReq++
		}
	}
	validDone := false
	for _, o := range p.Root.Opts {
		if o.Kind.IsStr() && !o.Kind.IsMulti() && r.Chance(1, 2) {
			o.Suggested = []string{"sugb", "suga", "other", "sugc", "sug-of-" + o.Name} // one entry of its own
		} else if o.Kind.IsStr() && !validDone && o.Env == "" && !o.Required {
			o.Valid = []string{"debug", "info", "warn", "error", "info", "fatal", "debug"} // repeated entries
			o.ValidSplit = idx%2 == 1                                                      // given through two ValidValues modifiers
			validDone = true
		}
	}
	for _, c := range p.Root.Cmds {
		c.ArgComp = []string{"zeta", "alpha", "alpine", "beta", "alpha"}
		c.ArgCompFn = []string{"alpine", "dyn"}
		c.ArgCompFnSplit = len(c.Name)%2 == 0
	}
	// the same word from several sources (command name, static list, dynamic function)
	p.Root.ArgComp = []string{"zeta", "dup", "dup", "alpha"}
	for _, c := range p.Root.Cmds {
		p.Root.ArgComp = append(p.Root.ArgComp, c.Name)
	}
	p.Root.ArgCompFn = []string{"zeta", "dyn"}
	// a wrapper (UnsetOptions) between ordinary sibling commands: what the siblings inherit must not depend on the order in
	// which the library happens to visit the commands of a level
	if idx%3 == 1 && len(p.Root.Cmds) >= 3 {
		w := p.Root.Cmds[1+r.Intn(len(p.Root.Cmds)-1)]
		w.Unset = true
	}
	return p
}

func init() {
	fw.Register(&fw.Check{
		ID:        "C20",
		Technique: "runtime monitor: equality of the complete outcome tuple (values, remaining, error text, warnings, help text, completion list) over 25 fresh in-process repetitions (Go randomises every map iteration) and over separate driver processes",
		Rule: "case = definition with >=2 entries in every table at once (>=2 missing required options at Parse level and at Dispatch level, >=2 unknown options, >=2 ambiguity candidates, >=2 commands, >=2 options / commands / suggestions matching a completion prefix) x several inputs; " +
			"every input is executed 25 times in process (fresh program each time) and, for every 8th case, in 3 separate processes; distinct = (definition shape, input kind); non-trivial = the input makes at least two alternatives eligible (2 missing required, 2 unknown, 2 candidates ...)" + genDims,
		Cases: func(tier string) int { return tierN(tier, 600, 20000) },
		Run: func(seed uint64, idx int, tier string) *fw.Result {
			r := CaseRng(seed, "C20", idx)
			p := c20Prog(r, idx)
			t := Resolve(p)
			res := &fw.Result{Sample: &CaseDoc{Prog: p, Note: "25 repetitions per input"}}
			var reqs []*DriverReq
			var kinds []string
			add := func(kind string, q *DriverReq) { reqs = append(reqs, q); kinds = append(kinds, kind) }
			// (a) nothing supplied: >=2 missing required at Parse level
			add("missing-required@parse", &DriverReq{Prog: p, Kind: "parse", Argv: []string{}, Dispatch: true})
			// (b) first command: missing required at Dispatch level
			var cmds []string
			for n, c := range t.Root.Children {
				if !c.IsHelp {
					cmds = append(cmds, n)
				}
			}
			sortStrings(cmds)
			if len(cmds) > 0 {
				add("missing-required@dispatch", &DriverReq{Prog: p, Kind: "parse", Argv: []string{cmds[0]}, Dispatch: true})
			}
			// (b2) help <topic> for every command (names share prefixes: c, co, cmd, clone ...)
			for _, c := range cmds {
				add("help-topic", &DriverReq{Prog: p, Kind: "parse", Argv: []string{"help", c}, Dispatch: true})
			}
			// (b2') topics that are not a command but the beginning of several command names, and the empty topic
			nAbbr := 0
			seenAbbr := map[string]bool{}
			for i, c := range cmds {
				for _, d := range cmds[i+1:] {
					l := 0
					for l < len(c) && l < len(d) && c[l] == d[l] {
						l++
					}
					pre := c[:l]
					if _, isCmd := t.Root.Children[pre]; pre == "" || isCmd || seenAbbr[pre] || nAbbr >= 3 {
						continue
					}
					seenAbbr[pre] = true
					nAbbr++
					add("help-topic-abbreviated", &DriverReq{Prog: p, Kind: "parse", Argv: []string{"help", pre}, Dispatch: true})
				}
			}
			if len(cmds) >= 2 {
				add("help-topic-empty", &DriverReq{Prog: p, Kind: "parse", Argv: []string{"help", ""}, Dispatch: true})
			}
			// (b3) the help flag and an inherited root option behind every command (siblings of a wrapper included)
			for i, c := range cmds {
				if i < 4 {
					add("help-flag@command", &DriverReq{Prog: p, Kind: "parse", Argv: []string{c, "--help"}, Dispatch: true})
				}
			}
			// (c) several unknown options
			add("unknown-options", &DriverReq{Prog: p, Kind: "parse", Argv: []string{"--zzb", "--zza=1", "-zc", "pos", "--zzd"}, Dispatch: true})
			// the same definition without required options: the unknown-option diagnostic itself is reached
			pNoReq := CloneProg(p)
			for _, o := range pNoReq.Root.Opts {
				o.Required = false
			}
			add("unknown-options", &DriverReq{Prog: pNoReq, Kind: "parse", Argv: []string{"--zzb", "--zza=1", "-zc", "pos", "--zzd"}, Dispatch: true})
			// (c2) an unknown option one edit away from several declared names (whatever a diagnostic adds about near misses
			// must not depend on the order in which the library happens to look at the names)
			nearDone := false
			for _, k := range t.Root.SortedKeys() {
				if nearDone || !isASCII(k) || len(k) < 2 {
					continue
				}
				for _, near := range []string{k[:len(k)-1] + "q", k + "q", k[:len(k)-1]} {
					if key, _, amb := t.Root.ResolveKey(near); key != "" || amb != nil || near == "" {
						continue
					}
					ties := 0
					for _, k2 := range t.Root.SortedKeys() {
						if len(k2) >= 2 && editDistance(near, k2) == 1 {
							ties++
						}
					}
					if ties >= 2 && len(near) >= 2 {
						add("unknown-near-miss", &DriverReq{Prog: pNoReq, Kind: "parse", Argv: []string{"--" + near}, Dispatch: true})
						nearDone = true
						break
					}
				}
			}
			// (d) ambiguous prefixes
			for _, k := range t.Root.SortedKeys() {
				fr := FirstRune(k)
				if _, _, amb := t.Root.ResolveKey(fr); len(amb) >= 2 {
					add("ambiguous-prefix", &DriverReq{Prog: p, Kind: "parse", Argv: []string{"--" + fr}})
					break
				}
			}
			// (e) help at every level
			for path, n := range t.Nodes {
				if n.IsHelp {
					continue
				}
				var toks []string
				if path != "" {
					toks = strings.Split(path, "/")
				}
				add("help", &DriverReq{Prog: p, Kind: "help", Argv: toks})
			}
			// (e2) Help with explicit section lists (option list in front of the synopsis, a section twice)
			add("help-sections", &DriverReq{Prog: p, Kind: "help", Argv: nil, Sections: []int{5, 3, 4}})
			add("help-sections", &DriverReq{Prog: p, Kind: "help", Argv: nil, Sections: []int{5, 5, 2, 3}})
			if len(cmds) > 0 {
				add("help-sections", &DriverReq{Prog: p, Kind: "help", Argv: []string{cmds[0]}, Sections: []int{5, 3}})
			}
			// (e3) an invalid value for an option whose valid-values list has repeated entries
			for _, o := range p.Root.Opts {
				if len(o.Valid) > 0 {
					add("invalid-value", &DriverReq{Prog: p, Kind: "parse", Argv: []string{"--" + o.Name + "=not-valid"}})
					break
				}
			}
			// (f) completion
			for _, zsh := range []bool{false, true} {
				add("completion-options", &DriverReq{Prog: p, Kind: "comp", CompLine: "prog --", Zsh: zsh, Argv: []string{"prog", "--", "prog"}})
				add("completion-commands", &DriverReq{Prog: p, Kind: "comp", CompLine: "prog ", Zsh: zsh, Argv: []string{"prog", "", "prog"}})
				if len(cmds) > 0 {
					add("completion-args", &DriverReq{Prog: p, Kind: "comp", CompLine: "prog " + cmds[0] + " a", Zsh: zsh, Argv: []string{"prog", "a", cmds[0]}})
				}
				// a command name typed in full that is also a prefix of sibling names (c, co, cmd, clone ...)
				nTyped := 0
				for _, c := range cmds {
					isPrefix := false
					for _, d := range cmds {
						if d != c && strings.HasPrefix(d, c) {
							isPrefix = true
						}
					}
					if isPrefix && nTyped < 2 {
						nTyped++
						add("completion-command-typed", &DriverReq{Prog: p, Kind: "comp", CompLine: "prog " + c, Zsh: zsh, Argv: []string{"prog", c, "prog"}})
					}
				}
				// value completion behind an option text that is the beginning of several option names
				nAmb := 0
				seenAmb := map[string]bool{}
				for _, k := range t.Root.SortedKeys() {
					fr := FirstRune(k)
					if _, _, amb := t.Root.ResolveKey(fr); len(amb) >= 2 && !seenAmb[fr] && nAmb < 3 && isASCII(fr) {
						seenAmb[fr] = true
						nAmb++
						add("completion-values-ambiguous-name", &DriverReq{Prog: p, Kind: "comp", CompLine: "prog --" + fr + "=", Zsh: zsh, Argv: []string{"prog", "--" + fr + "=", "prog"}})
						add("completion-values-ambiguous-name", &DriverReq{Prog: p, Kind: "comp", CompLine: "prog --" + fr + "=s", Zsh: zsh, Argv: []string{"prog", "--" + fr + "=s", "prog"}})
					}
				}
				for _, o := range p.Root.Opts {
					if len(o.Suggested) > 0 {
						add("completion-values", &DriverReq{Prog: p, Kind: "comp", CompLine: "prog --" + o.Name + "=sug", Zsh: zsh, Argv: []string{"prog", "--" + o.Name + "=sug", "prog"}})
						break
					}
				}
			}
			const reps = 25
			for qi, q := range reqs {
				first := Observe(q)
				res.Execs++
				for k := 1; k < reps; k++ {
					again := Observe(q)
					res.Execs++
					if again != first {
						doc := &CaseDoc{Prog: p, Argv: q.Argv, Note: fmt.Sprintf("input kind %s (comp_line %q), repetition %d differs from repetition 0", kinds[qi], q.CompLine, k),
							Extra: map[string]string{"first": first, "other": again}}
						return viol("determinism", []string{fmt.Sprintf("%s: repetition %d differs: %s", kinds[qi], k, firstDiff(first, again))}, doc)
					}
				}
				res.Events += reps
				res.Cells = append(res.Cells, "input="+kinds[qi])
			}
			// across processes
			if idx%8 == 0 {
				self, _ := os.Executable()
				work := os.Getenv("VERIF_WORK")
				if work == "" {
					work = os.TempDir()
				}
				for qi, q := range reqs {
					if kinds[qi] == "help" && qi%3 != 0 {
						continue
					}
					f := fmt.Sprintf("%s/c20-%d-%d.json", work, idx, qi)
					WriteDriverReq(f, q)
					first := Observe(q)
					for k := 0; k < 3; k++ {
						out, err := exec.Command(self, "-driver", f).Output()
						res.Execs++
						if err != nil {
							res.Inconclusive = "driver process failed: " + err.Error()
							break
						}
						if string(out) != first {
							doc := &CaseDoc{Prog: p, Argv: q.Argv, Note: "separate process differs, input kind " + kinds[qi], Extra: map[string]string{"in_process": first, "other_process": string(out)}}
							os.Remove(f)
							return viol("determinism across processes", []string{fmt.Sprintf("%s: %s", kinds[qi], firstDiff(first, string(out)))}, doc)
						}
					}
					os.Remove(f)
				}
				res.Cells = append(res.Cells, "across-processes")
			}
			seen := map[string]bool{}
			var cells []string
			for _, c := range res.Cells {
				if !seen[c] {
					seen[c] = true
					cells = append(cells, c)
				}
			}
			res.Cells = cells
			res.Sig = fmt.Sprintf("%d|%v|%v", idx%9, t.Root.SortedKeys(), cmds)
			return res
		},
	})
}

func firstDiff(a, b string) string {
	i := 0
	for i < len(a) && i < len(b) && a[i] == b[i] {
		i++
	}
	lo := i - 60
	if lo < 0 {
		lo = 0
	}
	hiA, hiB := i+80, i+80
	if hiA > len(a) {
		hiA = len(a)
	}
	if hiB > len(b) {
		hiB = len(b)
	}
	return fmt.Sprintf("...%s... vs ...%s...", a[lo:hiA], b[lo:hiB])
}

// WriteDriverReq - request file for `vcheck -driver`.
func WriteDriverReq(path string, q *DriverReq) error {
	var buf bytes.Buffer
	if err := gob.NewEncoder(&buf).Encode(q); err != nil {
		return err
	}
	return os.WriteFile(path, buf.Bytes(), 0o644)
}

// refHelpSections - Help(sections...) of an identically built program parked on the node reached by path tokens.
func refHelpSections(p *Prog, pathToks []string, sections []int) string {
	b := Build(p)
	defer b.Cleanup()
	if len(pathToks) > 0 {
		func() {
			defer func() { recover() }()
			b.Opt.Parse(pathToks)
		}()
	}
	var ss []getoptions.HelpSection
	for _, x := range sections {
		ss = append(ss, getoptions.HelpSection(x))
	}
	return b.Opt.Help(ss...)
}

// editDistance - Levenshtein distance on bytes (ASCII names only).
func editDistance(a, b string) int {
	prev := make([]int, len(b)+1)
	for j := range prev {
		prev[j] = j
	}
	for i := 1; i <= len(a); i++ {
		cur := make([]int, len(b)+1)
		cur[0] = i
		for j := 1; j <= len(b); j++ {
			cost := 1
			if a[i-1] == b[j-1] {
				cost = 0
			}
			cur[j] = prev[j-1] + cost
			if prev[j]+1 < cur[j] {
				cur[j] = prev[j] + 1
			}
			if cur[j-1]+1 < cur[j] {
				cur[j] = cur[j-1] + 1
			}
		}
		prev = cur
	}
	return prev[len(b)]
}
