package px

import (
	"fmt"
	"strings"

	"verif/fw"
)

// C07 - single-dash modes follow the documented rewriting; long options ignore the mode.
// Both sides of every relation are executed by the real code; the long-form side is anchored on the fold.

// longForm - the documented rewriting of every single-dash option token of the scenario.
func longForm(s *Scenario) (*Scenario, map[string]string) {
	v := &Scenario{Prog: s.Prog, Term: s.Term, Tail: s.Tail}
	unkMap := map[string]string{} // rewritten unknown token -> original token
	g := &scenGen{mode: s.Prog.Mode}
	for _, it := range s.Items {
		c := *it
		switch it.K {
		case IFlag, IValued, IOptBare, IMulti:
			if it.Key != "-" {
				c.Short = false
				c.Tokens = nil
				g.renderOpt(&c)
			}
		case IUnk:
			tok := it.Tokens[0]
			if !strings.HasPrefix(tok, "--") && tok != "-" {
				nt := tok
				switch s.Prog.Mode {
				case 0:
					nt = "-" + tok
				case 2:
					// -xREST == --x=REST
					body := tok[1:]
					fr := FirstRune(body)
					rest := body[len(fr):]
					nt = "--" + fr
					if rest != "" {
						nt += "=" + rest
					}
				case 1:
					// bundle of unknown letters: not covered by the statement, keep
				}
				if nt != tok {
					unkMap[nt] = tok
					c.Tokens = []string{nt}
				}
			}
		}
		v.Items = append(v.Items, &c)
	}
	v.Assemble()
	return v, unkMap
}

// replaceWholeToken - replaces occurrences of tok in s that stand as a whole token (delimited by a quote, a bracket, white
// space or the ends of the text), not as part of a longer one (`--z` inside `'--zy96'`).
func replaceWholeToken(s, tok, by string) string {
	isDelim := func(b byte) bool {
		return b == '\'' || b == '"' || b == ' ' || b == '[' || b == ']' || b == '\n' || b == '\t' || b == ',' || b == ':'
	}
	var sb strings.Builder
	for i := 0; i < len(s); {
		if strings.HasPrefix(s[i:], tok) && (i == 0 || isDelim(s[i-1])) && (i+len(tok) == len(s) || isDelim(s[i+len(tok)])) {
			sb.WriteString(by)
			i += len(tok)
			continue
		}
		sb.WriteByte(s[i])
		i++
	}
	return sb.String()
}

// splitBundles - Bundling: -xyz[=v] written as -x -y -z[=v].
func splitBundles(s *Scenario) *Scenario {
	v := &Scenario{Prog: s.Prog, Term: s.Term, Tail: s.Tail}
	g := &scenGen{mode: 1}
	for _, it := range s.Items {
		c := *it
		switch it.K {
		case IFlag, IValued, IOptBare, IMulti:
			if it.Key != "-" && it.Short {
				c.Tokens = nil
				g.renderOpt(&c)
			}
		}
		v.Items = append(v.Items, &c)
	}
	v.Assemble()
	return v
}

func mapToks(ts []string, m map[string]string) []string {
	out := make([]string, len(ts))
	for i, t := range ts {
		if o, ok := m[t]; ok {
			out[i] = o
		} else {
			out[i] = t
		}
	}
	return out
}

func init() {
	fw.Register(&fw.Check{
		ID:        "C07",
		Technique: "runtime monitor: metamorphic equality of complete outcomes between a command line and its documented rewriting (two real executions in the same mode), long-form side anchored on the intended-outcome fold; mode-independence of `--` tokens across three real executions",
		Rule: "case = random program + argv containing single-dash tokens of the mode's shape (Normal -name[=v]; Bundling -xyz[=v] with flag letters and a final option of any kind, detached values; SingleDash -xREST with arbitrary REST incl. leading '=' and multibyte letters; undeclared head letters) and its rewriting; " +
			"plus the long-only rendering executed in all 3 modes; distinct = (mode, item shapes); non-trivial = at least one single-dash option token is present" + genDims,
		Cases: func(tier string) int { return tierN(tier, 50000, 2000000) },
		Run: func(seed uint64, idx int, tier string) *fw.Result {
			r := CaseRng(seed, "C07", idx)
			pc := DefaultCfg()
			mode := idx % 3
			pc.Modes = []int{mode}
			pc.Unknowns = []int{(idx / 3) % 3}
			pc.LonesomeDash = true
			p := GenProg(r, pc)
			sc := DefaultScen()
			sc.WUnk = 2
			sc.WOpt = 8
			sc.MaxItems = 7
			sc.Bundle = true
			s := GenScenario(r, p, sc)
			t := Resolve(p)
			doc := &CaseDoc{Prog: p, Argv: s.Argv, Items: s.Items}
			res := &fw.Result{Sample: doc, Cells: scenCells(s, "")}
			nShort := 0
			for _, it := range s.Items {
				if it.Short || (it.K == IUnk && !strings.HasPrefix(it.Tokens[0], "--")) {
					nShort++
				}
			}
			oc := Run(p, s.Argv, false)
			res.Execs++
			if d := Universal(s.Argv, oc); len(d) > 0 {
				doc.Got = oc
				return viol("universal monitor", d, doc)
			}
			lf, unkMap := longForm(s)
			expL := Fold(t, lf)
			ocL := Run(p, lf.Argv, false)
			res.Execs++
			if d := Diff(t, ocL, expL); len(d) > 0 {
				doc.Got, doc.Expect, doc.Argv = ocL, expL, lf.Argv
				return viol("anchor (long form)", d, doc)
			}
			cmp := func(name string, a, b *Outcome, argvB []string, m map[string]string) *fw.Result {
				var d []string
				if a.HasErr != b.HasErr {
					d = append(d, fmt.Sprintf("error on one side only: %q vs %q", a.Err, b.Err))
				} else if a.HasErr {
					// same diagnostic modulo the verbatim token text
					ea, eb := a.Err, b.Err
					for nt, ot := range m {
						eb = replaceWholeToken(eb, nt, ot)
					}
					if ea != eb {
						d = append(d, fmt.Sprintf("different errors: %q vs %q", a.Err, b.Err))
					}
				} else {
					// the verbatim text of rewritten unknown tokens differs; tokens behind `--` are never rewritten
					nTail := 0
					if s.Term {
						nTail = len(s.Tail)
					}
					y := append([]string{}, b.Remaining...)
					if len(y) >= nTail {
						copy(y, mapToks(y[:len(y)-nTail], m))
					}
					if x := a.Remaining; !eqStrs(x, y) {
						d = append(d, fmt.Sprintf("remaining %q vs %q", a.Remaining, b.Remaining))
					}
					if x, y := optState(a), optState(b); !eqStrs(x, y) {
						d = append(d, fmt.Sprintf("option state differs: %v", listDiff(x, y)))
					}
					if a.Writer != b.Writer {
						d = append(d, fmt.Sprintf("warnings differ: %q vs %q", a.Writer, b.Writer))
					}
				}
				if len(d) > 0 {
					doc.Got = a
					doc.Extra = map[string]interface{}{"rewritten": argvB, "outcome_rewritten": b}
					return viol(name, d, doc)
				}
				return nil
			}
			if v := cmp("single-dash token vs documented rewriting", oc, ocL, lf.Argv, unkMap); v != nil {
				return v
			}
			res.Events += len(oc.Opts) + len(oc.Remaining)
			if mode == 1 {
				sb := splitBundles(s)
				ocS := Run(p, sb.Argv, false)
				res.Execs++
				if v := cmp("bundle vs separate letters", oc, ocS, sb.Argv, nil); v != nil {
					return v
				}
				if strings.Join(sb.Argv, " ") != strings.Join(s.Argv, " ") {
					res.Cells = append(res.Cells, "bundle_of_2+_letters")
				}
			}
			// mode independence of the long-only rendering
			for m2 := 0; m2 < 3; m2++ {
				if m2 == mode {
					continue
				}
				p2 := *p
				p2.Mode = m2
				hasDash := false
				for _, a := range lf.Argv {
					if a == "-" {
						hasDash = true
					}
				}
				_ = hasDash
				oc2 := Run(&p2, lf.Argv, false)
				res.Execs++
				if lfHasSingleDash(lf) {
					continue
				}
				if v := cmp(fmt.Sprintf("long options in %s vs %s mode", modeNames[mode], modeNames[m2]), ocL, oc2, lf.Argv, nil); v != nil {
					return v
				}
			}
			if nShort > 0 {
				res.Sig = scenSig(s)
			}
			return res
		},
	})
}

// lfHasSingleDash - the rewritten argv still holds an interpreted single-dash token other than `-`
// (bundles of unknown letters in Bundling mode are not rewritten).
func lfHasSingleDash(s *Scenario) bool {
	for _, it := range s.Items {
		for _, tok := range it.Tokens[:min(1, len(it.Tokens))] {
			if strings.HasPrefix(tok, "-") && !strings.HasPrefix(tok, "--") && tok != "-" && it.K != IPos && it.K != IRaw {
				return true
			}
		}
	}
	return false
}
