package px

import (
	"fmt"
	"sort"

	"verif/fw"
)

// C06 - aliases interchangeable, Called/CalledAs exact, untouched options keep defaults.
// Absolute: intended-outcome fold for every key at every level + pointer/Var agreement.
// Relational: the same intended parse written with primary names only gives the same outcome except CalledAs.

// primaryVariant - same items, every occurrence written with the option's primary name in long spelling.
func primaryVariant(s *Scenario, mode int) *Scenario {
	v := &Scenario{Prog: s.Prog, Term: s.Term, Tail: s.Tail}
	g := &scenGen{mode: mode}
	for _, it := range s.Items {
		c := *it
		if c.Opt != nil && c.Key != "-" && (c.K == IFlag || c.K == IValued || c.K == IOptBare || c.K == IMulti) {
			c.Key = c.Opt.Name
			c.Typed = c.Opt.Name
			c.Short = false
			c.Tokens = nil
			if c.Opt.Name == "-" {
				c.Tokens = []string{"-"}
			} else {
				g.renderOpt(&c)
			}
		} else if c.K == IBundleUnk {
			// keep as is (letters are aliases of flags; the token stays in remaining verbatim)
		}
		v.Items = append(v.Items, &c)
	}
	v.Assemble()
	return v
}

// stateNoCalledAs - option state of an outcome without CalledAs, as a canonical string list.
func stateNoCalledAs(oc *Outcome) []string {
	var out []string
	for k, v := range oc.Opts {
		out = append(out, fmt.Sprintf("%s=%s/%v", k, v.Val, v.Called))
	}
	sort.Strings(out)
	return out
}

func init() {
	fw.Register(&fw.Check{
		ID:        "C06",
		Technique: "runtime monitor: intended-outcome fold over every key at every level (Called/CalledAs/Value/pointer/Var, non-interference) + metamorphic alias<->primary-name comparison of two real runs",
		Rule: "case = program with 3-10 options of all 12 kinds, 0-3 aliases each, env bindings and SetCalled, argv mentioning a random subset with a random key (alias, unique abbreviation, short/long) per occurrence; " +
			"distinct = (modes, item shapes); non-trivial = at least one option is used through an alias or abbreviation and at least one declared option is left untouched" + genDims,
		Assumptions: []string{"environment variables VERIF_E* are set only by the single-threaded worker before definition"},
		Cases:       func(tier string) int { return tierN(tier, 60000, 3000000) },
		Run: func(seed uint64, idx int, tier string) *fw.Result {
			r := CaseRng(seed, "C06", idx)
			pc := DefaultCfg()
			pc.Aliases = 3
			pc.RootOpts = [2]int{3, 8}
			pc.Env = 25
			pc.SetCalled = 8
			pc.Modes = []int{idx % 3}
			pc.Unknowns = []int{2, 2, 1, 0}[(idx/3)%4 : (idx/3)%4+1]
			pc.LonesomeDash = true
			p := GenProg(r, pc)
			sc := DefaultScen()
			sc.WUnk = 1
			sc.WOpt = 8
			sc.MaxItems = 8
			s := GenScenario(r, p, sc)
			t := Resolve(p)
			exp := Fold(t, s)
			oc := Run(p, s.Argv, false)
			doc := &CaseDoc{Prog: p, Argv: s.Argv, Items: s.Items}
			res := &fw.Result{Execs: 1, Sample: doc, Cells: scenCells(s, "")}
			if d := Universal(s.Argv, oc); len(d) > 0 {
				doc.Got = oc
				return viol("universal monitor", d, doc)
			}
			if d := Diff(t, oc, exp); len(d) > 0 {
				doc.Got, doc.Expect = oc, exp
				return viol("Called/CalledAs/Value/default monitor", d, doc)
			}
			res.Events = len(oc.Opts)*3 + len(oc.Ptrs)
			usedAlias, untouched := false, false
			for _, it := range s.Items {
				if it.Opt != nil && (it.Key != it.Opt.Name || it.Typed != it.Key) {
					usedAlias = true
				}
			}
			for _, o := range t.AllOpts() {
				if !exp.Called[o.ID] {
					untouched = true
				}
				if o.Env != "" {
					res.Cells = append(res.Cells, fmt.Sprintf("env:%s:set=%v", o.Kind, o.EnvSet && o.EnvVal != ""))
				}
			}
			// metamorphic partner
			if !exp.Err {
				v := primaryVariant(s, p.Mode)
				oc2 := Run(p, v.Argv, false)
				res.Execs++
				if oc2.HasErr || oc2.Panic != "" {
					doc.Got, doc.Extra = oc2, v.Argv
					return viol("alias interchange", []string{fmt.Sprintf("primary-name spelling %q fails (%s%s) while the alias spelling succeeds", v.Argv, oc2.Err, oc2.Panic)}, doc)
				}
				a, b := stateNoCalledAs(oc), stateNoCalledAs(oc2)
				if !eqStrs(a, b) || !eqStrs(oc.Remaining, oc2.Remaining) {
					doc.Got, doc.Extra = oc2, v.Argv
					return viol("alias interchange", []string{fmt.Sprintf("alias spelling %q and primary-name spelling %q differ beyond CalledAs: %v vs %v; remaining %q vs %q", s.Argv, v.Argv, a, b, oc.Remaining, oc2.Remaining)}, doc)
				}
				res.Events += len(a)
			}
			if usedAlias && untouched && !exp.Err {
				res.Sig = scenSig(s)
			}
			return res
		},
	})
}
