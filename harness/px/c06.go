package px

import (
	"fmt"
	"sort"
	"strconv"
	"strings"

	"verif/fw"
)

// C06 - aliases interchangeable, Called/CalledAs exact, untouched options keep defaults.
// Absolute: intended-outcome fold for every key at every level + pointer/Var agreement.
// Relational: the same intended parse written with primary names only gives the same outcome except CalledAs.
// Store agreement: every 4th case writes one option through SetValue after Parse and re-reads every key, pointer and Var.

// primaryVariant - same items, every occurrence written with the option's primary name in long spelling.
func primaryVariant(s *Scenario, mode int) *Scenario {
	v := &Scenario{Prog: s.Prog, Term: s.Term, Tail: s.Tail}
	g := &scenGen{mode: mode}
	for _, it := range s.Items {
		c := *it
		if c.Opt != nil && c.Key != "-" && (c.K == IFlag || c.K == IValued || c.K == IOptBare || c.K == IMulti) {
			c.Key = c.Opt.Name
			c.Typed = c.Opt.Name
			c.Short = false
			c.Tokens = nil
			if c.Opt.Name == "-" {
				c.Tokens = []string{"-"}
			} else {
				g.renderOpt(&c)
			}
		} else if c.K == IBundleUnk {
			// keep as is (letters are aliases of flags; the token stays in remaining verbatim)
		}
		v.Items = append(v.Items, &c)
	}
	v.Assemble()
	return v
}

// stateNoCalledAs - option state of an outcome without CalledAs, as a canonical string list.
func stateNoCalledAs(oc *Outcome) []string {
	var out []string
	for k, v := range oc.Opts {
		out = append(out, fmt.Sprintf("%s=%s/%v", k, v.Val, v.Called))
	}
	sort.Strings(out)
	return out
}

// setValueStep - "the pointer returned at definition, the *Var target and Value(x) always agree": after a successful
// Parse one option is written through SetValue at a random level where it is visible; afterwards every key of that
// option at every level and its pointer must show the new value, every other option must be unchanged, and no
// Called/CalledAs answer may have changed (SetValue is not the command line, the environment or SetCalled).
func setValueStep(r *Rng, p *Prog, argv []string) (events int, diffs []string) {
	var b *Built
	pan := ""
	func() {
		defer func() {
			if x := recover(); x != nil {
				pan = fmt.Sprint(x)
			}
		}()
		b = Build(p)
	}()
	if pan != "" {
		return 0, nil
	}
	defer b.Cleanup()
	before := b.RunParse(argv)
	if before.HasErr || before.Panic != "" {
		return 0, nil
	}
	paths := make([]string, 0, len(b.Nodes))
	for path := range b.Nodes {
		paths = append(paths, path)
	}
	sort.Strings(paths)
	path := paths[r.Intn(len(paths))]
	n := b.Tree.Nodes[path]
	var cands []*Opt
	for _, o := range n.Visible {
		if o == b.Tree.HelpOpt {
			continue
		}
		switch o.Kind {
		case KString, KStringOpt, KInt, KIntOpt, KFloat, KFloatOpt, KBool, KIncr, KStrings:
			cands = append(cands, o)
		}
	}
	if len(cands) == 0 {
		return 0, nil
	}
	o := cands[r.Intn(len(cands))]
	h := b.Ptrs[o.ID]
	var args []string
	want := ""
	switch {
	case o.Kind == KBool:
		want = Enc(!o.DefB)
	case o.Kind == KIncr:
		cur, _ := strconv.Atoi(strings.TrimPrefix(before.Ptrs[o.ID], "i:"))
		want = Enc(cur + 1)
	case o.Kind.IsStr():
		t := r.Pick(append([]string{"", "-x", "--", "a=b", "x y", "\xff\n"}, HostilePlain...))
		if len(o.Valid) > 0 {
			t = r.Pick(o.Valid)
		}
		args = []string{t}
		if o.Kind == KStrings {
			cur := []string{}
			if h != nil && h.ss != nil {
				cur = append(cur, (*h.ss)...)
			}
			want = Enc(append(cur, t))
		} else {
			want = Enc(t)
		}
	case o.Kind.IsInt():
		v := r.Range(-1000, 1000)
		args = []string{strconv.Itoa(v)}
		want = Enc(v)
	case o.Kind.IsFloat():
		v := float64(r.Range(-4000, 4000)) / 8
		args = []string{strconv.FormatFloat(v, 'g', -1, 64)}
		want = Enc(v)
	}
	if len(o.Valid) > 0 && !o.Kind.IsStr() {
		return 0, nil
	}
	var err error
	func() {
		defer func() {
			if x := recover(); x != nil {
				pan = fmt.Sprint(x)
			}
		}()
		err = b.Nodes[path].SetValue(o.Name, args...)
	}()
	if pan != "" {
		return 1, []string{fmt.Sprintf("SetValue(%q, %q) at level %q panicked: %s", o.Name, args, path, pan)}
	}
	if err != nil {
		return 1, []string{fmt.Sprintf("SetValue(%q, %q) at level %q (valid text for a %s option) returned %v", o.Name, args, path, o.Kind, err)}
	}
	after := &Outcome{}
	b.Snapshot(after)
	for k, ob := range before.Opts {
		oa := after.Opts[k]
		i := strings.Index(k, "|")
		ko := b.Tree.Nodes[k[:i]].KeyTable()[k[i+1:]]
		if ko == o {
			if oa.Val != want {
				diffs = append(diffs, fmt.Sprintf("after SetValue(%q, %q) at level %q: Value(%q) at level %q is %s, want %s", o.Name, args, path, k[i+1:], k[:i], oa.Val, want))
			}
		} else if oa.Val != ob.Val {
			diffs = append(diffs, fmt.Sprintf("SetValue(%q, %q) at level %q changed another option: %s was %s, is %s", o.Name, args, path, k, ob.Val, oa.Val))
		}
		if oa.Called != ob.Called || oa.CalledAs != ob.CalledAs {
			diffs = append(diffs, fmt.Sprintf("SetValue(%q, %q) at level %q changed Called/CalledAs of %s: %v/%q -> %v/%q", o.Name, args, path, k, ob.Called, ob.CalledAs, oa.Called, oa.CalledAs))
		}
		events++
	}
	for id, pb := range before.Ptrs {
		pa := after.Ptrs[id]
		if id == o.ID {
			if pa != want {
				diffs = append(diffs, fmt.Sprintf("after SetValue(%q, %q): pointer/Var target of the option is %s, want %s", o.Name, args, pa, want))
			}
		} else if pa != pb {
			diffs = append(diffs, fmt.Sprintf("SetValue(%q, %q) changed the pointer/Var target of option #%d: %s -> %s", o.Name, args, id, pb, pa))
		}
		events++
	}
	return events, diffs
}

func init() {
	fw.Register(&fw.Check{
		ID:        "C06",
		Technique: "runtime monitor: intended-outcome fold over every key at every level (Called/CalledAs/Value/pointer/Var, non-interference) + metamorphic alias<->primary-name comparison of two real runs",
		Rule: "case = program with 3-10 options of all 12 kinds, 0-3 aliases each, env bindings and SetCalled, argv mentioning a random subset with a random key (alias, unique abbreviation, short/long) per occurrence; " +
			"distinct = (modes, item shapes); non-trivial = at least one option is used through an alias or abbreviation and at least one declared option is left untouched" + genDims,
		Assumptions: []string{"environment variables VERIF_E* are set only by the single-threaded worker before definition"},
		Cases:       func(tier string) int { return tierN(tier, 60000, 3000000) },
		Run: func(seed uint64, idx int, tier string) *fw.Result {
			r := CaseRng(seed, "C06", idx)
			pc := DefaultCfg()
			pc.Aliases = 3
			pc.RootOpts = [2]int{3, 8}
			pc.Env = 25
			pc.SetCalled = 8
			pc.Modes = []int{idx % 3}
			pc.Unknowns = []int{2, 2, 1, 0}[(idx/3)%4 : (idx/3)%4+1]
			pc.LonesomeDash = true
			p := GenProg(r, pc)
			sc := DefaultScen()
			sc.WUnk = 1
			sc.WOpt = 8
			sc.MaxItems = 8
			s := GenScenario(r, p, sc)
			t := Resolve(p)
			exp := Fold(t, s)
			oc := Run(p, s.Argv, false)
			doc := &CaseDoc{Prog: p, Argv: s.Argv, Items: s.Items}
			res := &fw.Result{Execs: 1, Sample: doc, Cells: scenCells(s, "")}
			if d := Universal(s.Argv, oc); len(d) > 0 {
				doc.Got = oc
				return viol("universal monitor", d, doc)
			}
			if d := Diff(t, oc, exp); len(d) > 0 {
				doc.Got, doc.Expect = oc, exp
				return viol("Called/CalledAs/Value/default monitor", d, doc)
			}
			res.Events = len(oc.Opts)*3 + len(oc.Ptrs)
			usedAlias, untouched := false, false
			for _, it := range s.Items {
				if it.Opt != nil && (it.Key != it.Opt.Name || it.Typed != it.Key) {
					usedAlias = true
				}
			}
			for _, o := range t.AllOpts() {
				if !exp.Called[o.ID] {
					untouched = true
				}
				if o.Env != "" {
					res.Cells = append(res.Cells, fmt.Sprintf("env:%s:set=%v", o.Kind, o.EnvSet && o.EnvVal != ""))
				}
			}
			// metamorphic partner
			if !exp.Err {
				v := primaryVariant(s, p.Mode)
				oc2 := Run(p, v.Argv, false)
				res.Execs++
				if oc2.HasErr || oc2.Panic != "" {
					doc.Got, doc.Extra = oc2, v.Argv
					return viol("alias interchange", []string{fmt.Sprintf("primary-name spelling %q fails (%s%s) while the alias spelling succeeds", v.Argv, oc2.Err, oc2.Panic)}, doc)
				}
				a, b := stateNoCalledAs(oc), stateNoCalledAs(oc2)
				if !eqStrs(a, b) || !eqStrs(oc.Remaining, oc2.Remaining) {
					doc.Got, doc.Extra = oc2, v.Argv
					return viol("alias interchange", []string{fmt.Sprintf("alias spelling %q and primary-name spelling %q differ beyond CalledAs: %v vs %v; remaining %q vs %q", s.Argv, v.Argv, a, b, oc.Remaining, oc2.Remaining)}, doc)
				}
				res.Events += len(a)
			}
			if !exp.Err && idx%4 == 1 {
				ev, d := setValueStep(r, p, s.Argv)
				res.Execs++
				res.Events += ev
				if len(d) > 0 {
					doc.Got = oc
					return viol("pointer / Var / Value agreement after SetValue", d, doc)
				}
				if ev > 0 {
					res.Cells = append(res.Cells, "setvalue")
				}
			}
			if usedAlias && untouched && !exp.Err {
				res.Sig = scenSig(s)
			}
			return res
		},
	})
}
