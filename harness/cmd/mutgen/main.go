// mutgen - tiny source mutator used for the sensitivity sweep (DESIGN section 14): one mutation per output file.
// usage: mutgen <file.go> <outdir>   -> writes <outdir>/<n>.go and <outdir>/<n>.txt (description)
package main

import (
	"bytes"
	"fmt"
	"go/ast"
	"go/parser"
	"go/printer"
	"go/token"
	"os"
	"path/filepath"
)

var swaps = map[token.Token][]token.Token{
	token.EQL: {token.NEQ}, token.NEQ: {token.EQL},
	token.LSS: {token.LEQ, token.GTR}, token.LEQ: {token.LSS}, token.GTR: {token.GEQ, token.LSS}, token.GEQ: {token.GTR},
	token.LAND: {token.LOR}, token.LOR: {token.LAND},
	token.ADD: {token.SUB}, token.SUB: {token.ADD},
}

type mutation struct {
	desc  string
	apply func()
	undo  func()
}

func main() {
	src, outdir := os.Args[1], os.Args[2]
	fset := token.NewFileSet()
	f, err := parser.ParseFile(fset, src, nil, parser.ParseComments)
	if err != nil {
		panic(err)
	}
	var muts []mutation
	pos := func(p token.Pos) string { return fset.Position(p).String() }
	if os.Getenv("MUTSET") == "2" {
		muts = set2(f, pos)
	} else {
		muts = set1(f, pos)
	}
	os.MkdirAll(outdir, 0o755)
	for i, m := range muts {
		m.apply()
		var buf bytes.Buffer
		if err := printer.Fprint(&buf, fset, f); err == nil {
			os.WriteFile(filepath.Join(outdir, fmt.Sprintf("%04d.go", i)), buf.Bytes(), 0o644)
			os.WriteFile(filepath.Join(outdir, fmt.Sprintf("%04d.txt", i)), []byte(m.desc+"\n"), 0o644)
		}
		m.undo()
	}
	fmt.Println(len(muts), "mutants of", src)
}

// set2 - second operator set: operand drops in && / ||, forced conditions, deleted else branches and case bodies,
// removed negations, swapped call arguments, deleted return statements inside nested blocks.
func set2(f *ast.File, pos func(token.Pos) string) []mutation {
	var muts []mutation
	replaceExpr := func(parent ast.Node, old, nw ast.Expr) (func(), func(), bool) {
		switch p := parent.(type) {
		case *ast.IfStmt:
			if p.Cond == old {
				return func() { p.Cond = nw }, func() { p.Cond = old }, true
			}
		case *ast.BinaryExpr:
			if p.X == old {
				return func() { p.X = nw }, func() { p.X = old }, true
			}
			if p.Y == old {
				return func() { p.Y = nw }, func() { p.Y = old }, true
			}
		case *ast.ParenExpr:
			if p.X == old {
				return func() { p.X = nw }, func() { p.X = old }, true
			}
		case *ast.UnaryExpr:
			if p.X == old {
				return func() { p.X = nw }, func() { p.X = old }, true
			}
		case *ast.ForStmt:
			if p.Cond == old {
				return func() { p.Cond = nw }, func() { p.Cond = old }, true
			}
		case *ast.AssignStmt:
			for i := range p.Rhs {
				if p.Rhs[i] == old {
					i := i
					return func() { p.Rhs[i] = nw }, func() { p.Rhs[i] = old }, true
				}
			}
		case *ast.ReturnStmt:
			for i := range p.Results {
				if p.Results[i] == old {
					i := i
					return func() { p.Results[i] = nw }, func() { p.Results[i] = old }, true
				}
			}
		case *ast.CallExpr:
			for i := range p.Args {
				if p.Args[i] == old {
					i := i
					return func() { p.Args[i] = nw }, func() { p.Args[i] = old }, true
				}
			}
		}
		return nil, nil, false
	}
	var stack []ast.Node
	depth := 0
	ast.Inspect(f, func(n ast.Node) bool {
		if n == nil {
			if _, ok := stack[len(stack)-1].(*ast.BlockStmt); ok {
				depth--
			}
			stack = stack[:len(stack)-1]
			return true
		}
		var parent ast.Node
		if len(stack) > 0 {
			parent = stack[len(stack)-1]
		}
		stack = append(stack, n)
		switch x := n.(type) {
		case *ast.BlockStmt:
			depth++
			if depth >= 2 {
				for i, st := range x.List {
					i, st := i, st
					if _, ok := st.(*ast.ReturnStmt); ok {
						muts = append(muts, mutation{fmt.Sprintf("%s: delete return", pos(st.Pos())), func() { x.List[i] = &ast.EmptyStmt{Semicolon: st.Pos()} }, func() { x.List[i] = st }})
					}
				}
			}
		case *ast.BinaryExpr:
			if x.Op == token.LAND || x.Op == token.LOR {
				if a, u, ok := replaceExpr(parent, x, x.X); ok {
					muts = append(muts, mutation{fmt.Sprintf("%s: %s keeps left operand only", pos(x.OpPos), x.Op), a, u})
				}
				if a, u, ok := replaceExpr(parent, x, x.Y); ok {
					muts = append(muts, mutation{fmt.Sprintf("%s: %s keeps right operand only", pos(x.OpPos), x.Op), a, u})
				}
			}
		case *ast.UnaryExpr:
			if x.Op == token.NOT {
				if a, u, ok := replaceExpr(parent, x, x.X); ok {
					muts = append(muts, mutation{fmt.Sprintf("%s: negation removed", pos(x.OpPos)), a, u})
				}
			}
		case *ast.IfStmt:
			old := x.Cond
			muts = append(muts, mutation{fmt.Sprintf("%s: if condition -> true", pos(x.If)), func() { x.Cond = ast.NewIdent("true") }, func() { x.Cond = old }})
			muts = append(muts, mutation{fmt.Sprintf("%s: if condition -> false", pos(x.If)), func() { x.Cond = ast.NewIdent("false") }, func() { x.Cond = old }})
			if x.Else != nil {
				oe := x.Else
				muts = append(muts, mutation{fmt.Sprintf("%s: else branch deleted", pos(x.If)), func() { x.Else = nil }, func() { x.Else = oe }})
			}
		case *ast.CaseClause:
			if len(x.Body) > 0 {
				ob := x.Body
				muts = append(muts, mutation{fmt.Sprintf("%s: case body deleted", pos(x.Case)), func() { x.Body = nil }, func() { x.Body = ob }})
			}
		case *ast.CallExpr:
			for i := 0; i+1 < len(x.Args); i++ {
				i := i
				muts = append(muts, mutation{fmt.Sprintf("%s: call arguments %d and %d swapped", pos(x.Lparen), i, i+1), func() { x.Args[i], x.Args[i+1] = x.Args[i+1], x.Args[i] }, func() { x.Args[i], x.Args[i+1] = x.Args[i+1], x.Args[i] }})
			}
		}
		return true
	})
	return muts
}

func set1(f *ast.File, pos func(token.Pos) string) []mutation {
	var muts []mutation
	ast.Inspect(f, func(n ast.Node) bool {
		switch x := n.(type) {
		case *ast.BinaryExpr:
			for _, t := range swaps[x.Op] {
				old, nw := x.Op, t
				muts = append(muts, mutation{fmt.Sprintf("%s: binary %s -> %s", pos(x.OpPos), old, nw), func() { x.Op = nw }, func() { x.Op = old }})
			}
		case *ast.IfStmt:
			old := x.Cond
			muts = append(muts, mutation{fmt.Sprintf("%s: negate if condition", pos(x.If)), func() { x.Cond = &ast.UnaryExpr{Op: token.NOT, X: &ast.ParenExpr{X: old}} }, func() { x.Cond = old }})
		case *ast.BasicLit:
			if x.Kind == token.INT && (x.Value == "0" || x.Value == "1" || x.Value == "2") {
				old := x.Value
				nw := map[string]string{"0": "1", "1": "0", "2": "1"}[old]
				muts = append(muts, mutation{fmt.Sprintf("%s: int literal %s -> %s", pos(x.ValuePos), old, nw), func() { x.Value = nw }, func() { x.Value = old }})
				if old == "1" {
					muts = append(muts, mutation{fmt.Sprintf("%s: int literal 1 -> 2", pos(x.ValuePos)), func() { x.Value = "2" }, func() { x.Value = old }})
				}
			}
		case *ast.Ident:
			if x.Name == "true" || x.Name == "false" {
				old := x.Name
				nw := map[string]string{"true": "false", "false": "true"}[old]
				muts = append(muts, mutation{fmt.Sprintf("%s: %s -> %s", pos(x.NamePos), old, nw), func() { x.Name = nw }, func() { x.Name = old }})
			}
		case *ast.BranchStmt:
			if x.Label == nil && (x.Tok == token.BREAK || x.Tok == token.CONTINUE) {
				old := x.Tok
				nw := map[token.Token]token.Token{token.BREAK: token.CONTINUE, token.CONTINUE: token.BREAK}[old]
				muts = append(muts, mutation{fmt.Sprintf("%s: %s -> %s", pos(x.TokPos), old, nw), func() { x.Tok = nw }, func() { x.Tok = old }})
			}
		case *ast.BlockStmt:
			for i, st := range x.List {
				i, st := i, st
				switch s := st.(type) {
				case *ast.ExprStmt, *ast.IncDecStmt, *ast.BranchStmt, *ast.DeferStmt, *ast.GoStmt:
					muts = append(muts, mutation{fmt.Sprintf("%s: delete statement", pos(st.Pos())), func() { x.List[i] = &ast.EmptyStmt{Semicolon: st.Pos()} }, func() { x.List[i] = st }})
				case *ast.AssignStmt:
					if s.Tok == token.ASSIGN || s.Tok == token.ADD_ASSIGN {
						muts = append(muts, mutation{fmt.Sprintf("%s: delete assignment", pos(st.Pos())), func() { x.List[i] = &ast.EmptyStmt{Semicolon: st.Pos()} }, func() { x.List[i] = st }})
					}
				}
			}
		}
		return true
	})
	return muts
}
