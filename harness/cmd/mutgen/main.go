// mutgen - tiny source mutator used for the sensitivity sweep (DESIGN section 14): one mutation per output file.
// usage: mutgen <file.go> <outdir>   -> writes <outdir>/<n>.go and <outdir>/<n>.txt (description)
package main

import (
	"bytes"
	"fmt"
	"go/ast"
	"go/parser"
	"go/printer"
	"go/token"
	"os"
	"path/filepath"
)

var swaps = map[token.Token][]token.Token{
	token.EQL: {token.NEQ}, token.NEQ: {token.EQL},
	token.LSS: {token.LEQ, token.GTR}, token.LEQ: {token.LSS}, token.GTR: {token.GEQ, token.LSS}, token.GEQ: {token.GTR},
	token.LAND: {token.LOR}, token.LOR: {token.LAND},
	token.ADD: {token.SUB}, token.SUB: {token.ADD},
}

type mutation struct {
	desc  string
	apply func()
	undo  func()
}

func main() {
	src, outdir := os.Args[1], os.Args[2]
	fset := token.NewFileSet()
	f, err := parser.ParseFile(fset, src, nil, parser.ParseComments)
	if err != nil {
		panic(err)
	}
	var muts []mutation
	pos := func(p token.Pos) string { return fset.Position(p).String() }
	ast.Inspect(f, func(n ast.Node) bool {
		switch x := n.(type) {
		case *ast.BinaryExpr:
			for _, t := range swaps[x.Op] {
				old, nw := x.Op, t
				muts = append(muts, mutation{fmt.Sprintf("%s: binary %s -> %s", pos(x.OpPos), old, nw), func() { x.Op = nw }, func() { x.Op = old }})
			}
		case *ast.IfStmt:
			old := x.Cond
			muts = append(muts, mutation{fmt.Sprintf("%s: negate if condition", pos(x.If)), func() { x.Cond = &ast.UnaryExpr{Op: token.NOT, X: &ast.ParenExpr{X: old}} }, func() { x.Cond = old }})
		case *ast.BasicLit:
			if x.Kind == token.INT && (x.Value == "0" || x.Value == "1" || x.Value == "2") {
				old := x.Value
				nw := map[string]string{"0": "1", "1": "0", "2": "1"}[old]
				muts = append(muts, mutation{fmt.Sprintf("%s: int literal %s -> %s", pos(x.ValuePos), old, nw), func() { x.Value = nw }, func() { x.Value = old }})
				if old == "1" {
					muts = append(muts, mutation{fmt.Sprintf("%s: int literal 1 -> 2", pos(x.ValuePos)), func() { x.Value = "2" }, func() { x.Value = old }})
				}
			}
		case *ast.Ident:
			if x.Name == "true" || x.Name == "false" {
				old := x.Name
				nw := map[string]string{"true": "false", "false": "true"}[old]
				muts = append(muts, mutation{fmt.Sprintf("%s: %s -> %s", pos(x.NamePos), old, nw), func() { x.Name = nw }, func() { x.Name = old }})
			}
		case *ast.BranchStmt:
			if x.Label == nil && (x.Tok == token.BREAK || x.Tok == token.CONTINUE) {
				old := x.Tok
				nw := map[token.Token]token.Token{token.BREAK: token.CONTINUE, token.CONTINUE: token.BREAK}[old]
				muts = append(muts, mutation{fmt.Sprintf("%s: %s -> %s", pos(x.TokPos), old, nw), func() { x.Tok = nw }, func() { x.Tok = old }})
			}
		case *ast.BlockStmt:
			for i, st := range x.List {
				i, st := i, st
				switch s := st.(type) {
				case *ast.ExprStmt, *ast.IncDecStmt, *ast.BranchStmt, *ast.DeferStmt, *ast.GoStmt:
					muts = append(muts, mutation{fmt.Sprintf("%s: delete statement", pos(st.Pos())), func() { x.List[i] = &ast.EmptyStmt{Semicolon: st.Pos()} }, func() { x.List[i] = st }})
				case *ast.AssignStmt:
					if s.Tok == token.ASSIGN || s.Tok == token.ADD_ASSIGN {
						muts = append(muts, mutation{fmt.Sprintf("%s: delete assignment", pos(st.Pos())), func() { x.List[i] = &ast.EmptyStmt{Semicolon: st.Pos()} }, func() { x.List[i] = st }})
					}
				}
			}
		}
		return true
	})
	os.MkdirAll(outdir, 0o755)
	for i, m := range muts {
		m.apply()
		var buf bytes.Buffer
		if err := printer.Fprint(&buf, fset, f); err == nil {
			os.WriteFile(filepath.Join(outdir, fmt.Sprintf("%04d.go", i)), buf.Bytes(), 0o644)
			os.WriteFile(filepath.Join(outdir, fmt.Sprintf("%04d.txt", i)), []byte(m.desc+"\n"), 0o644)
		}
		m.undo()
	}
	fmt.Println(len(muts), "mutants of", src)
}
