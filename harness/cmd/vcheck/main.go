// vcheck - coordinator / worker / replay for all checks.
package main

import (
	"bufio"
	"bytes"
	"encoding/json"
	"flag"
	"fmt"
	"os"
	"os/exec"
	"path/filepath"
	"regexp"
	"runtime"
	"runtime/debug"
	"sort"
	"strconv"
	"strings"
	"sync"
	"syscall"
	"time"

	_ "verif/dagx"
	"verif/fw"
	"verif/px"
)

var (
	fCheck    = flag.String("check", "", "property id")
	fTier     = flag.String("tier", "quick", "quick|thorough")
	fWorker   = flag.Bool("worker", false, "worker mode")
	fShard    = flag.Int("shard", 0, "")
	fNShards  = flag.Int("nshards", 1, "")
	fOnly     = flag.Int("only", -1, "run only this case index (worker)")
	fOut      = flag.String("out", "", "")
	fJournal  = flag.String("journal", "", "")
	fReplay   = flag.String("replay", "", "replay file")
	fNeedRace = flag.String("needs-race", "", "print yes/no")
	fList     = flag.Bool("list", false, "")
	fVerif    = flag.String("verif", "/verif", "verif directory")
	fRaceBin  = flag.String("racebin", "", "path of the -race build (coordinator)")
	fWorkers  = flag.Int("workers", 0, "")
	fDriver   = flag.String("driver", "", "observe one request in this process and print the outcome tuple")
)

func seedFromEnv() uint64 {
	s := os.Getenv("VERIF_SEED")
	if s == "" {
		return 1
	}
	n, err := strconv.ParseInt(s, 10, 64)
	if err != nil {
		return fw.Hash64(s)
	}
	return uint64(n)
}

func main() {
	flag.Parse()
	switch {
	case *fDriver != "":
		os.Exit(px.DriverMain(*fDriver))
	case *fList:
		ids := []string{}
		for id := range fw.Registry {
			ids = append(ids, id)
		}
		sort.Strings(ids)
		fmt.Println(strings.Join(ids, "\n"))
	case *fNeedRace != "":
		c := fw.Registry[*fNeedRace]
		if c != nil && c.Race {
			fmt.Println("yes")
		} else {
			fmt.Println("no")
		}
	case *fWorker:
		worker()
	case *fReplay != "":
		os.Exit(replay(*fReplay))
	default:
		os.Exit(coordinate())
	}
}

// ------------------------------------------------------------------------------------------------

func runCase(c *fw.Check, seed uint64, idx int, tier string) (res *fw.Result) {
	defer func() {
		if r := recover(); r != nil {
			res = &fw.Result{Viol: &fw.Violation{Msg: fmt.Sprintf("panic escaped the case runner: %v", r), Detail: string(debug.Stack())}}
		}
	}()
	return c.Run(seed, idx, tier)
}

func gcd(a, b int) int {
	for b != 0 {
		a, b = b, a%b
	}
	return a
}

// permMultiplier - a multiplier coprime to total: k -> k*mul mod total is a bijection on [0,total).
func permMultiplier(total int) int {
	for _, p := range []int{1000003, 998244353 % 2000003, 7919, 104729, 15485863, 31, 17, 13, 7, 5, 3} {
		if p%total != 0 && gcd(p, total) == 1 {
			return p % total
		}
	}
	return 1
}

func worker() {
	c := fw.Registry[*fCheck]
	if c == nil {
		fmt.Fprintln(os.Stderr, "unknown check", *fCheck)
		os.Exit(3)
	}
	seed := seedFromEnv()
	total := c.Cases(*fTier)
	if c.MemLimitMB > 0 {
		lim := uint64(c.MemLimitMB) << 20
		_ = syscall.Setrlimit(syscall.RLIMIT_AS, &syscall.Rlimit{Cur: lim, Max: lim})
	}
	agg := fw.NewAgg()
	var jf *os.File
	if *fJournal != "" {
		var err error
		jf, err = os.Create(*fJournal)
		if err != nil {
			fmt.Fprintln(os.Stderr, err)
			os.Exit(3)
		}
	}
	do := func(idx int) {
		if jf != nil {
			fmt.Fprintf(jf, "%d\n", idx)
		}
		r := runCase(c, seed, idx, *fTier)
		agg.Add(idx, r)
	}
	if *fOnly >= 0 {
		do(*fOnly)
	} else {
		// spread the case indices over the shards with a fixed permutation (enumerated spaces put cases of
		// similar cost at the same residue; a stride would load the shards unevenly)
		mul := permMultiplier(total)
		for k := *fShard; k < total; k += *fNShards {
			if agg.NViolations >= 3 {
				// the verdict is settled (every violation is reported with its own replay file): on a tree that hangs in
				// many cases the rest of the shard would only cost one watchdog period per case
				agg.Counters["cases_not_run_after_3_violations_in_shard"] += (total - k + *fNShards - 1) / *fNShards
				break
			}
			do(int(uint64(k) * uint64(mul) % uint64(total)))
		}
	}
	if jf != nil {
		fmt.Fprintf(jf, "done\n")
		jf.Close()
	}
	agg.Seal()
	if err := fw.WriteJSON(*fOut, agg); err != nil {
		fmt.Fprintln(os.Stderr, err)
		os.Exit(3)
	}
}

// ------------------------------------------------------------------------------------------------

type knownFinding struct {
	Property string
	Match    string
	Text     string
}

func loadKnown(verif string) []knownFinding {
	var out []knownFinding
	b, err := os.ReadFile(filepath.Join(verif, "KNOWN_FINDINGS.txt"))
	if err != nil {
		return nil
	}
	re := regexp.MustCompile(`^known:\s+property=(\S+)\s+match=(\S+)\s+(.*)$`)
	for _, l := range strings.Split(string(b), "\n") {
		if m := re.FindStringSubmatch(strings.TrimSpace(l)); m != nil {
			out = append(out, knownFinding{m[1], m[2], m[3]})
		}
	}
	return out
}

type workerProc struct {
	shard   int
	cmd     *exec.Cmd
	out     string
	journal string
	log     string
	done    chan error
	lastPos int64
	lastMov time.Time
}

func lastJournalIdx(path string) (int, bool) {
	b, err := os.ReadFile(path)
	if err != nil {
		return -1, false
	}
	lines := strings.Split(strings.TrimSpace(string(b)), "\n")
	if len(lines) == 0 {
		return -1, false
	}
	last := lines[len(lines)-1]
	if last == "done" {
		return -1, true
	}
	n, err := strconv.Atoi(last)
	if err != nil {
		return -1, false
	}
	return n, false
}

func tailFile(path string, n int) string {
	b, err := os.ReadFile(path)
	if err != nil {
		return ""
	}
	if len(b) > n {
		b = b[len(b)-n:]
	}
	return string(b)
}

func coordinate() int {
	t0 := time.Now()
	c := fw.Registry[*fCheck]
	if c == nil {
		fmt.Fprintln(os.Stderr, "unknown check", *fCheck)
		return 3
	}
	tier := *fTier
	seed := seedFromEnv()
	verif := *fVerif
	work := filepath.Join(verif, ".work", "run", fmt.Sprintf("%s-%s-%d", c.ID, tier, os.Getpid()))
	os.RemoveAll(work)
	if err := os.MkdirAll(work, 0o755); err != nil {
		fmt.Fprintln(os.Stderr, err)
		return 3
	}
	defer func() {
		if os.Getenv("VERIF_KEEP_WORK") == "" {
			os.RemoveAll(work)
		}
	}()
	self, _ := os.Executable()
	bin := self
	if c.Race {
		if *fRaceBin == "" {
			fmt.Fprintln(os.Stderr, "check needs -racebin")
			return 3
		}
		bin = *fRaceBin
	}
	total := c.Cases(tier)
	nw := runtime.NumCPU()
	if c.WorkersPerCPU > 1 {
		nw *= c.WorkersPerCPU
	}
	if *fWorkers > 0 {
		nw = *fWorkers
	}
	if c.MaxWorkers > 0 && nw > c.MaxWorkers {
		nw = c.MaxWorkers
	}
	if nw > total {
		nw = total
	}
	if nw < 1 {
		nw = 1
	}
	caseTimeout := time.Duration(c.PerCaseTimeoutS) * time.Second
	if caseTimeout == 0 {
		caseTimeout = 60 * time.Second
	}
	raceDir := filepath.Join(work, "race")
	os.MkdirAll(raceDir, 0o755)

	spawn := func(shard, nshards, only int, tag string) *workerProc {
		w := &workerProc{shard: shard, done: make(chan error, 1)}
		w.out = filepath.Join(work, fmt.Sprintf("out-%s.json", tag))
		w.journal = filepath.Join(work, fmt.Sprintf("journal-%s.txt", tag))
		w.log = filepath.Join(work, fmt.Sprintf("log-%s.txt", tag))
		args := []string{"-worker", "-check", c.ID, "-tier", tier, "-shard", strconv.Itoa(shard), "-nshards", strconv.Itoa(nshards),
			"-out", w.out, "-journal", w.journal, "-verif", verif}
		if only >= 0 {
			args = append(args, "-only", strconv.Itoa(only))
		}
		w.cmd = exec.Command(bin, args...)
		lf, _ := os.Create(w.log)
		w.cmd.Stdout = lf
		w.cmd.Stderr = lf
		w.cmd.Env = append(os.Environ(), "VERIF_SEED="+strconv.FormatUint(seed, 10),
			"GORACE=halt_on_error=0 log_path="+filepath.Join(raceDir, "r-"+tag), "GOTRACEBACK=all", "VERIF_WORK="+work)
		// completion must never be triggered by the coordinator's environment
		w.cmd.Env = append(w.cmd.Env, "COMP_LINE=", "ZSHELL=")
		if err := w.cmd.Start(); err != nil {
			w.done <- err
			lf.Close()
			return w
		}
		w.lastMov = time.Now()
		go func() { w.done <- w.cmd.Wait(); lf.Close() }()
		return w
	}

	// waitWorker - returns (finished ok, stalled, err)
	waitWorker := func(w *workerProc) (stalled bool, err error) {
		tick := time.NewTicker(500 * time.Millisecond)
		defer tick.Stop()
		for {
			select {
			case err := <-w.done:
				return false, err
			case <-tick.C:
				st, e := os.Stat(w.journal)
				if e == nil && st.Size() != w.lastPos {
					w.lastPos = st.Size()
					w.lastMov = time.Now()
				}
				if time.Since(w.lastMov) > caseTimeout {
					w.cmd.Process.Signal(syscall.SIGQUIT)
					select {
					case <-w.done:
					case <-time.After(10 * time.Second):
						w.cmd.Process.Kill()
						<-w.done
					}
					return true, nil
				}
			}
		}
	}

	agg := fw.NewAgg()
	var mu sync.Mutex
	type trouble struct {
		idx     int
		stalled bool
		log     string
	}
	var troubles []trouble
	var wg sync.WaitGroup
	for i := 0; i < nw; i++ {
		wg.Add(1)
		go func(i int) {
			defer wg.Done()
			w := spawn(i, nw, -1, fmt.Sprintf("s%d", i))
			stalled, err := waitWorker(w)
			mu.Lock()
			defer mu.Unlock()
			if !stalled && err == nil {
				var a fw.Agg
				b, e := os.ReadFile(w.out)
				if e == nil && json.Unmarshal(b, &a) == nil {
					agg.Merge(&a)
					return
				}
				err = fmt.Errorf("worker output unreadable: %v", e)
			}
			idx, _ := lastJournalIdx(w.journal)
			troubles = append(troubles, trouble{idx: idx, stalled: stalled, log: tailFile(w.log, 6000) + fmt.Sprintf("\n[worker exit: %v]", err)})
		}(i)
	}
	wg.Wait()

	// A worker that died or stalled: the case that was executing is re-run alone (up to 3 times).
	confirmed := 0
	for _, tr := range troubles {
		if confirmed >= 2 {
			// two stalls/crashes were already reproduced in isolation: the verdict is taken, do not spend the watchdog again
			agg.Counters["worker_deaths_not_rerun_after_confirmed_ones"]++
			continue
		}
		if tr.idx < 0 {
			agg.Inconclusive = append(agg.Inconclusive, "worker failed before its first case: "+tr.log)
			continue
		}
		reproduced := 0
		var lastLog string
		for k := 0; k < 3; k++ {
			w := spawn(0, 1, tr.idx, fmt.Sprintf("re%d-%d", tr.idx, k))
			stalled, err := waitWorker(w)
			lastLog = tailFile(w.log, 6000)
			if stalled || err != nil {
				reproduced++
				continue
			}
			var a fw.Agg
			b, e := os.ReadFile(w.out)
			if e == nil && json.Unmarshal(b, &a) == nil {
				agg.Merge(&a)
			}
			break
		}
		what := "runtime-fatal crash"
		if tr.stalled {
			what = "no progress (stall)"
		}
		if reproduced == 3 {
			confirmed++
			agg.NViolations++
			agg.Violations = append(agg.Violations, fw.ViolRec{Idx: tr.idx, Msg: what + " reproduced 3/3 in isolation", Detail: lastLog})
		} else {
			agg.Inconclusive = append(agg.Inconclusive, fmt.Sprintf("case %d: %s in its shard, not reproduced in isolation (%d/3): %s", tr.idx, what, reproduced, firstLines(tr.log, 12)))
		}
		// the rest of the dead shard was not executed: run it in a fresh worker, skipping the culprit is not possible
		// in general, so the remaining indices of that shard are reported as not covered.
		agg.Counters["cases_not_executed_after_worker_death"]++
	}

	// race logs
	raceReports := 0
	var raceTexts []string
	if c.Race {
		files, _ := filepath.Glob(filepath.Join(raceDir, "r-*"))
		seen := map[string]bool{}
		for _, f := range files {
			b, _ := os.ReadFile(f)
			for _, blk := range strings.Split(string(b), "==================") {
				if !strings.Contains(blk, "WARNING: DATA RACE") {
					continue
				}
				raceReports++
				key := raceKey(blk)
				if !seen[key] {
					seen[key] = true
					raceTexts = append(raceTexts, blk)
				}
			}
		}
		agg.Counters["race_reports"] += raceReports
		agg.Counters["race_reports_distinct"] += len(raceTexts)
		for _, t := range raceTexts {
			agg.NViolations++
			agg.Violations = append(agg.Violations, fw.ViolRec{Idx: -1, Msg: "race detector report", Detail: t})
		}
	}

	ctx := &fw.CoordCtx{VerifDir: verif, WorkDir: work, Tier: tier, Seed: seed, BinPath: bin,
		Logf: func(f string, a ...interface{}) { fmt.Printf(f+"\n", a...) }}
	if c.Post != nil {
		if err := c.Post(ctx, agg); err != nil {
			agg.Inconclusive = append(agg.Inconclusive, "post step: "+err.Error())
		}
	}

	// verdict
	known := loadKnown(verif)
	isKnown := func(key string) *knownFinding {
		if key == "" {
			return nil
		}
		for i := range known {
			if known[i].Property == c.ID && known[i].Match == key {
				return &known[i]
			}
		}
		return nil
	}
	realViol := 0
	knownSeen := map[string]int{}
	repDir := filepath.Join(verif, "replays", c.ID)
	if os.Getenv("VERIF_NO_EVIDENCE") != "" {
		repDir = filepath.Join(verif, ".work", "replays-scratch", c.ID)
	}
	var lines []string
	for _, v := range agg.Violations {
		if k := isKnown(v.KnownKey); k != nil {
			knownSeen[v.KnownKey]++
			continue
		}
		realViol++
		os.MkdirAll(repDir, 0o755)
		name := fmt.Sprintf("%s-s%d-i%d.json", tier, seed, v.Idx)
		if v.Idx == -1 {
			name = fmt.Sprintf("%s-s%d-race%d.json", tier, seed, realViol)
		} else if v.Idx < 0 {
			name = fmt.Sprintf("%s-s%d-found%d.json", tier, seed, realViol)
		}
		path := filepath.Join(repDir, name)
		fw.WriteJSON(path, map[string]interface{}{"property": c.ID, "tier": tier, "seed": seed, "idx": v.Idx, "msg": v.Msg, "detail": v.Detail, "case": v.Sample})
		lines = append(lines, fmt.Sprintf("VIOLATION property=%s replay=%s", c.ID, path))
		fmt.Printf("  violation: case %d: %s\n", v.Idx, firstLines(v.Msg, 6))
	}
	// violations beyond the kept ones
	extra := agg.NViolations - len(agg.Violations)
	wall := time.Since(t0).Seconds()

	// evidence
	cov := map[string]interface{}{
		"evaluations":             agg.Evaluations,
		"distinct_nontrivial":     agg.Distinct(),
		"rule":                    c.Rule,
		"samples":                 agg.Samples,
		"executions_of_real_code": agg.Execs,
		"events_observed":         agg.Events,
		"cells":                   agg.Cells,
		"counters":                agg.Counters,
		"inconclusive":            len(agg.Inconclusive),
		"inconclusive_detail":     truncList(agg.Inconclusive, 10),
		"workers":                 nw,
		"cases_planned":           total,
	}
	if c.ExhaustivePart != "" {
		cov["exhaustive_part"] = c.ExhaustivePart
		cov["exhaustive"] = false // the run as a whole also samples beyond the enumerated part
	}
	if agg.DistinctExtra() > 0 {
		cov["distinct_interleavings_or_states"] = agg.DistinctExtra()
	}
	if c.Race {
		cov["race_detector"] = map[string]interface{}{"enabled": true, "reports": raceReports, "distinct": len(raceTexts)}
	}
	if len(agg.Samples) == 0 {
		cov["samples"] = []interface{}{"no non-trivial case was produced"}
	}
	assumptions := append([]string{
		"the harness (spec->API builder, generators, oracle code under /verif/harness) is correct",
		"held on the executions counted here, nothing is claimed for inputs/schedules this run did not produce",
	}, c.Assumptions...)
	ev := map[string]interface{}{
		"property_id": c.ID, "tier": tier, "seed": int64(seed), "level": "exploration", "coverage": cov,
		"assumptions": assumptions, "wall_s": wall, "violations": realViol + extra,
		"known_findings_seen": knownSeen, "technique": c.Technique,
	}
	evDir := filepath.Join(verif, "evidence")
	if os.Getenv("VERIF_NO_EVIDENCE") != "" { // sensitivity runs against patched trees must not overwrite the evidence
		evDir = filepath.Join(verif, ".work", "evidence-scratch")
	}
	os.MkdirAll(evDir, 0o755)
	if err := fw.WriteJSON(filepath.Join(evDir, c.ID+".json"), ev); err != nil {
		fmt.Fprintln(os.Stderr, "evidence:", err)
		return 3
	}

	fmt.Printf("%s %s seed=%d: %d cases, %d executions, %d events, %d distinct non-trivial, %d cells, %d inconclusive, %.1fs\n",
		c.ID, tier, seed, agg.Evaluations, agg.Execs, agg.Events, agg.Distinct(), len(agg.Cells), len(agg.Inconclusive), wall)
	for _, s := range truncList(agg.Inconclusive, 5) {
		fmt.Printf("  inconclusive: %s\n", firstLines(s, 3))
	}
	for key, n := range knownSeen {
		k := isKnown(key)
		fmt.Printf("KNOWN-FINDING: property=%s %s (match=%s, %d witnesses this run)\n", c.ID, k.Text, key, n)
	}
	for _, l := range lines {
		fmt.Println(l)
	}
	if extra > 0 {
		fmt.Printf("  (+%d further violations not written out)\n", extra)
	}
	if realViol > 0 {
		return 1
	}
	if agg.Evaluations == 0 {
		fmt.Println("no case executed: inconclusive")
		return 2
	}
	return 0
}

var lineNoRe = regexp.MustCompile(`:\d+( \+0x[0-9a-f]+)?`)

// raceKey - dedupe by the outermost non-runtime frames of the two stacks, line numbers stripped.
func raceKey(blk string) string {
	var funcs []string
	sc := bufio.NewScanner(bytes.NewReader([]byte(blk)))
	for sc.Scan() {
		l := strings.TrimSpace(sc.Text())
		if strings.HasSuffix(l, ")") && !strings.HasPrefix(l, "/") && !strings.Contains(l, " ") {
			funcs = append(funcs, lineNoRe.ReplaceAllString(l, ""))
		}
	}
	if len(funcs) > 6 {
		funcs = funcs[:6]
	}
	return strings.Join(funcs, "|")
}

func firstLines(s string, n int) string {
	ls := strings.Split(s, "\n")
	if len(ls) > n {
		ls = append(ls[:n], "...")
	}
	return strings.Join(ls, "\n")
}

func truncList(s []string, n int) []string {
	if len(s) > n {
		return s[:n]
	}
	if s == nil {
		return []string{}
	}
	return s
}

// ------------------------------------------------------------------------------------------------

func replay(path string) int {
	b, err := os.ReadFile(path)
	if err != nil {
		fmt.Fprintln(os.Stderr, err)
		return 3
	}
	var rec struct {
		Property string          `json:"property"`
		Tier     string          `json:"tier"`
		Seed     uint64          `json:"seed"`
		Idx      int             `json:"idx"`
		Detail   json.RawMessage `json:"detail"`
	}
	if err := json.Unmarshal(b, &rec); err != nil {
		fmt.Fprintln(os.Stderr, err)
		return 3
	}
	c := fw.Registry[rec.Property]
	if c == nil {
		fmt.Fprintln(os.Stderr, "unknown check", rec.Property)
		return 3
	}
	if rec.Idx == -2 && c.ReplayDetail != nil {
		r := c.ReplayDetail(rec.Detail)
		out, _ := json.MarshalIndent(map[string]interface{}{"case": r.Sample, "violation": r.Viol, "inconclusive": r.Inconclusive}, "", " ")
		fmt.Println(string(out))
		if r.Viol != nil {
			fmt.Printf("VIOLATION property=%s replay=%s\n", rec.Property, path)
			return 1
		}
		fmt.Println("held on replay")
		return 0
	}
	if rec.Idx < 0 {
		fmt.Printf("race report: re-run `./check %s %s` with VERIF_SEED=%d to reproduce the workload\n", rec.Property, rec.Tier, rec.Seed)
		return 0
	}
	r := runCase(c, rec.Seed, rec.Idx, rec.Tier)
	out, _ := json.MarshalIndent(map[string]interface{}{"case": r.Sample, "violation": r.Viol, "inconclusive": r.Inconclusive}, "", " ")
	fmt.Println(string(out))
	if r.Viol != nil {
		fmt.Printf("VIOLATION property=%s replay=%s\n", rec.Property, path)
		return 1
	}
	fmt.Println("held on replay")
	return 0
}
