package dagx

import (
	"fmt"
	"strings"

	"verif/fw"
)

type rng struct{ s uint64 }

func newRng(seed uint64, tag string, idx int) *rng {
	h := seed*0x9E3779B97F4A7C15 + 0x51ED
	for _, c := range []byte(tag) {
		h = (h ^ uint64(c)) * 0x100000001B3
	}
	h ^= uint64(idx) * 0xD6E8FEB86659FD93
	r := &rng{h}
	r.u64()
	return r
}
func (r *rng) u64() uint64 {
	r.s += 0x9E3779B97F4A7C15
	z := r.s
	z = (z ^ (z >> 30)) * 0xBF58476D1CE4E5B9
	z = (z ^ (z >> 27)) * 0x94D049BB133111EB
	return z ^ (z >> 31)
}
func (r *rng) intn(n int) int {
	if n <= 0 {
		return 0
	}
	return int(r.u64() % uint64(n))
}
func (r *rng) chance(a, b int) bool { return r.intn(b) < a }

// edgesOf - topologically labelled DAG number mask on n vertices: bit k <-> pair (i depends on j), j<i.
func edgesOf(n int, mask int) [][2]int {
	var e [][2]int
	k := 0
	for i := 1; i < n; i++ {
		for j := 0; j < i; j++ {
			if mask&(1<<uint(k)) != 0 {
				e = append(e, [2]int{i, j})
			}
			k++
		}
	}
	return e
}

func nPairs(n int) int { return n * (n - 1) / 2 }

// canonHist - straightforward construction: AddTask for every task, retries, then the edges.
func canonHist(r *rng, n int, edges [][2]int, retries []int) []Call {
	var h []Call
	style := r.intn(3)
	if style != 2 {
		for t := 0; t < n; t++ {
			h = append(h, Call{Op: "add", A: t})
		}
	}
	for t, x := range retries {
		// the number of retries set last is the one that counts: sometimes an earlier, different call comes first
		if r.chance(1, 8) {
			if other := r.intn(4); other != x {
				h = append(h, Call{Op: "retries", A: t, R: other})
				if x == 0 {
					h = append(h, Call{Op: "retries", A: t, R: 0})
				}
			}
		}
		if x != 0 {
			h = append(h, Call{Op: "retries", A: t, R: x})
		}
	}
	deps := map[int][]int{}
	for _, e := range edges {
		deps[e[0]] = append(deps[e[0]], e[1])
	}
	for t := 0; t < n; t++ {
		if len(deps[t]) == 0 {
			if style == 2 {
				h = append(h, Call{Op: "add", A: t}) // edges first style: tasks without deps still need adding
			}
			continue
		}
		if style == 1 {
			for _, d := range deps[t] {
				h = append(h, Call{Op: "dep", A: t, B: []int{d}})
			}
		} else {
			h = append(h, Call{Op: "dep", A: t, B: deps[t]})
		}
	}
	return h
}

// outcome scripts: 0 ok | 1 err | 2 skipparents | 3 fail-then-ok (1 retry) | 4 fail-fail (1 retry) | 5 fail,fail,ok (2 retries)
var scripts = [][]int{{OK}, {ERR}, {SKIPPARENTS}, {ERR, OK}, {ERR, ERR}, {ERR, ERR, OK}}
var scriptRetries = []int{0, 0, 0, 1, 1, 2}

func modeOf(i int) (serial bool, maxpar int, name string) {
	switch i % 4 {
	case 0:
		return false, 0, "parallel"
	case 1:
		return false, 1, "limit1"
	case 2:
		return false, 2, "limit2"
	}
	return true, 0, "serial"
}

// runAll - executes the spec under every completion order reachable by the controller (stateless DFS), up to cap runs.
func runAll(spec *Spec, cap int, res *fw.Result, props map[string]bool) *fw.Result {
	prefix := []int{}
	for run := 0; run < cap; run++ {
		s := *spec
		s.Policy = "dfs"
		s.Prefix = prefix
		if v := runOne(&s, res, props); v != nil {
			return v
		}
		tr := lastTrace
		// next path
		ch := tr.Choices
		i := len(ch) - 1
		for i >= 0 && ch[i][0]+1 >= ch[i][1] {
			i--
		}
		if i < 0 {
			res.Counters["order_spaces_exhausted"]++
			return nil
		}
		prefix = nil
		for k := 0; k < i; k++ {
			prefix = append(prefix, ch[k][0])
		}
		prefix = append(prefix, ch[i][0]+1)
	}
	res.Counters["order_spaces_capped"]++
	return nil
}

var lastTrace *Trace

// runOne - execute + monitor; returns a violation result or nil.
func runOne(spec *Spec, res *fw.Result, props map[string]bool) *fw.Result {
	tr := Execute(spec)
	lastTrace = tr
	res.Execs++
	res.Events += len(tr.Events) + tr.IdleTicks
	res.Counters["idle_ticks_seen"] += tr.IdleTicks
	res.Counters["quiescent_points"] += len(tr.Quiescent)
	if tr.BlockedQuiescent > 0 {
		res.Counters["quiescent_points_taken_after_30ms_without_scheduler_iteration"] += tr.BlockedQuiescent
	}
	res.Counters[fmt.Sprintf("peak_concurrency=%d", tr.Peak)]++
	res.ExtraSigs = append(res.ExtraSigs, specShape(spec)+"|"+tr.Signature())
	fs := Monitor(spec, tr)
	if tr.Timeout != "" && len(fs) == 0 {
		res.Inconclusive = "watchdog: " + tr.Timeout
		return nil
	}
	res.Counters["late_entries_after_cancel(in-flight, N1)"] += tr.LateEntriesAfterCancel
	if len(fs) > 0 {
		var msgs []string
		for _, f := range fs {
			msgs = append(msgs, "["+f.Prop+"] "+f.Msg)
		}
		if len(msgs) > 6 {
			msgs = append(msgs[:6], "...")
		}
		return &fw.Result{Viol: &fw.Violation{Msg: strings.Join(msgs, "; "), Detail: fs},
			Sample: map[string]interface{}{"spec": spec, "trace": traceDoc(tr)}, Execs: res.Execs, Events: res.Events, Counters: res.Counters}
	}
	return nil
}

func traceDoc(tr *Trace) map[string]interface{} {
	var ev []string
	for _, e := range tr.Events {
		ev = append(ev, e.String())
	}
	if len(ev) > 80 {
		ev = append(ev[:80], "...")
	}
	return map[string]interface{}{"events": ev, "run_err": tr.RunErr, "choices": tr.Choices, "peak": tr.Peak, "deadlock": tr.DeadlockSnap, "log": tr.LogLines, "sort": tr.SortIDs, "output": tr.Output}
}

func specShape(s *Spec) string {
	var sb strings.Builder
	for _, c := range s.Hist {
		sb.WriteString(c.String())
	}
	fmt.Fprintf(&sb, "|%v|s%v m%d b%v|%s|%v", s.Plan, s.Serial, s.MaxPar, s.Buffer, s.Policy, s.Cancel)
	return sb.String()
}

func newRes(sample interface{}) *fw.Result {
	return &fw.Result{Counters: map[string]int{}, Sample: sample}
}

// randomDag - random acyclic graph on n vertices with the given edge probability (percent).
func randomDag(r *rng, n, pct int) [][2]int {
	var e [][2]int
	for i := 1; i < n; i++ {
		for j := 0; j < i; j++ {
			if r.intn(100) < pct {
				e = append(e, [2]int{i, j})
			}
		}
	}
	return e
}

func randomPlan(r *rng, n int, failPct int) ([][]int, []int) {
	plan := make([][]int, n)
	retries := make([]int, n)
	for t := 0; t < n; t++ {
		k := 0
		if r.intn(100) < failPct {
			k = 1 + r.intn(len(scripts)-1)
		}
		plan[t] = scripts[k]
		retries[t] = scriptRetries[k]
		if k != 0 && r.chance(1, 8) {
			// attempts that end differently: what counts is the final attempt
			plan[t] = [][]int{{SKIPPARENTS, ERR}, {ERR, SKIPPARENTS}, {SKIPPARENTS, OK}}[r.intn(3)]
			retries[t] = 1
		}
	}
	if r.chance(1, 12) {
		// a negative number of retries is "no retries": the single-attempt scripts stay what the task does
		if t := r.intn(n); retries[t] == 0 {
			retries[t] = -1 - r.intn(3)
		}
	}
	return plan, retries
}

// skipLatticeCase - several ErrorSkipParents sources that share dependents, which have dependents of their own, next to
// unrelated tasks that fail or succeed: a vertex may be marked as skipped more than once, at different times, while
// other work is still in flight. The outcome rules are the ones of every other run.
func skipLatticeCase(seed uint64, idx int, props map[string]bool) *fw.Result {
	r := newRng(seed, "C14-skiplattice", idx)
	n := 5 + r.intn(5)
	nsrc := 2 + r.intn(2)
	have := map[[2]int]bool{}
	var edges [][2]int
	add := func(a, b int) {
		if a > b && !have[[2]int{a, b}] {
			have[[2]int{a, b}] = true
			edges = append(edges, [2]int{a, b})
		}
	}
	// sources 0..nsrc-1, the shared dependent p = nsrc, its dependent g = nsrc+1
	for s := 0; s < nsrc; s++ {
		add(nsrc, s)
	}
	add(nsrc+1, nsrc)
	for _, e := range randomDag(r, n, 10+r.intn(30)) {
		if e[1] < nsrc && e[0] < nsrc {
			continue // the sources stay independent of each other: they end at different times
		}
		add(e[0], e[1])
	}
	plan, retries := randomPlan(r, n, 30)
	for s := 0; s < nsrc; s++ {
		plan[s], retries[s] = []int{SKIPPARENTS}, 0
		if r.chance(1, 6) {
			plan[s], retries[s] = []int{ERR, SKIPPARENTS}, 1
		}
	}
	serial, maxpar, mname := modeOf(idx)
	if maxpar == 2 {
		maxpar = 2 + r.intn(2)
	}
	spec := &Spec{N: n, Hist: canonHist(r, n, edges, retries), Plan: plan, Serial: serial, MaxPar: maxpar, PSeed: r.u64(), Buffer: r.chance(1, 4)}
	spec.AttemptErrs, spec.WrapSkip = r.chance(1, 2), r.chance(1, 3)
	res := newRes(map[string]interface{}{"spec": spec})
	res.Cells = []string{fmt.Sprintf("skip-lattice|%s|sources=%d", mname, nsrc)}
	for k := 0; k < 6; k++ {
		spec.Policy = "rand"
		if k == 5 {
			spec.Policy = "all"
		}
		if v := runOne(spec, res, props); v != nil {
			return v
		}
		spec.PSeed++
	}
	res.Sig = specShape(spec)
	return res
}

// retryStormCase - few tasks, many failed attempts: more retried attempts in one Run than the graph has vertices, with and
// without buffered output, under every mode. Run has to return and every attempt's outcome and output are accounted for.
func retryStormCase(seed uint64, idx int, props map[string]bool) *fw.Result {
	r := newRng(seed, "C16-retrystorm", idx)
	n := 1 + r.intn(3)
	var edges [][2]int
	if n > 1 {
		edges = randomDag(r, n, r.intn(40))
	}
	plan := make([][]int, n)
	retries := make([]int, n)
	total := 0
	for t := 0; t < n; t++ {
		k := r.intn(6) // failed attempts in front of the final one
		for a := 0; a < k; a++ {
			plan[t] = append(plan[t], ERR)
		}
		plan[t] = append(plan[t], []int{OK, OK, ERR, SKIPPARENTS}[r.intn(4)])
		retries[t] = k + r.intn(2) // exactly enough, or one to spare
		total += k
	}
	serial, maxpar, mname := modeOf(idx)
	spec := &Spec{N: n, Hist: canonHist(r, n, edges, retries), Plan: plan, Serial: serial, MaxPar: maxpar, PSeed: r.u64(), Buffer: idx%8 < 5}
	spec.Lines = spec.Buffer && r.chance(1, 2)
	spec.AttemptErrs = r.chance(1, 2)
	res := newRes(map[string]interface{}{"spec": spec})
	res.Cells = []string{fmt.Sprintf("retry-storm|%s|buffer=%v|retried>vertices=%v", mname, spec.Buffer, total > n)}
	for k := 0; k < 3; k++ {
		spec.Policy = []string{"rand", "all", "eager"}[k]
		spec.HoldUS = 50
		if v := runOne(spec, res, props); v != nil {
			return v
		}
		spec.PSeed++
	}
	res.Sig = specShape(spec)
	return res
}

// ------------------------------------------------------------------------------------------------
// C13

func smallScopeCases(maxN, ns int) int {
	total := 0
	for n := 1; n <= maxN; n++ {
		g := 1 << uint(nPairs(n))
		o := 1
		for i := 0; i < n; i++ {
			o *= ns
		}
		total += g * o * 4
	}
	return total
}

func decodeSmall(idx, maxN, ns int) (n, mask int, script []int, mode int) {
	for n = 1; n <= maxN; n++ {
		g := 1 << uint(nPairs(n))
		o := 1
		for i := 0; i < n; i++ {
			o *= ns
		}
		sz := g * o * 4
		if idx < sz {
			mode = idx % 4
			idx /= 4
			mask = idx % g
			idx /= g
			for i := 0; i < n; i++ {
				script = append(script, idx%ns)
				idx /= ns
			}
			return
		}
		idx -= sz
	}
	return 1, 0, []int{0}, 0
}

func init() {
	allProps := map[string]bool{"C13": true, "C14": true, "C15": true, "C16": true}
	common := []string{
		"task functions are harness closures that park until the controller releases them; completion order is controlled, Go-scheduler interleavings inside one scheduler iteration are sampled",
		"idle-tick hook (build tag verif) reports scheduler snapshots; the deadlock verdict is the fixpoint 'nothing ready, nothing running, not all done'",
		"race detector: plain (unsynchronized) cells are touched only outside every harness synchronization, so the only happens-before path between them is the library's own",
	}
	fw.Register(&fw.Check{
		ID:            "C13",
		Race:          true,
		WorkersPerCPU: 3,
		Technique:     "runtime monitoring under the Go race detector: offline precedence checker over the sequence-numbered enter/exit event log of real Graph.Run executions with controller-chosen completion orders; plain dependency cells decide visibility",
		Rule: "small scope exhaustive: every topologically-labelled DAG on n<=3 (quick) / n<=4 (thorough) vertices x every outcome script per task {ok, err, ErrorSkipParents, fail-then-ok, fail-fail, fail-fail-ok under retries} x {parallel, limit 1, limit 2, serial} x EVERY completion order reachable by the controller (stateless DFS, re-execution per order); " +
			"then random DAGs up to 12 vertices with PRNG orders, 'release everything at once' (uncontrolled) and eager stress runs, with tasks added again at random places of the history, buffered output, task errors that wrap context errors, tasks built as struct literals and an earlier failed Run of the same graph; distinct = (graph, plan, mode); distinct interleavings = distinct event sequences observed; non-trivial = graph has at least one edge",
		Assumptions: common,
		Cases: func(tier string) int {
			if tier == "thorough" {
				return smallScopeCases(4, 6) + 30000
			}
			return smallScopeCases(3, 5) + 600
		},
		PerCaseTimeoutS: 480, // exhaustive order spaces: up to 400 runs per case, on a machine shared with other jobs a case has taken more than two minutes
		Run: func(seed uint64, idx int, tier string) *fw.Result {
			maxN, ns := 3, 5 // quick: scripts with at most 2 attempts, every order space is exhausted
			if tier == "thorough" {
				maxN, ns = 4, 6
			}
			small := smallScopeCases(maxN, ns)
			r := newRng(seed, "C13", idx)
			if idx < small {
				n, mask, sc, mode := decodeSmall(idx, maxN, ns)
				edges := edgesOf(n, mask)
				plan := make([][]int, n)
				retries := make([]int, n)
				for t := 0; t < n; t++ {
					plan[t] = scripts[sc[t]]
					retries[t] = scriptRetries[sc[t]]
				}
				serial, maxpar, mname := modeOf(mode)
				hist := canonHist(r, n, edges, retries)
				if r.chance(1, 4) {
					pos := r.intn(len(hist) + 1)
					hist = append(hist[:pos], append([]Call{{Op: "add", A: r.intn(n)}}, hist[pos:]...)...)
				}
				spec := &Spec{N: n, Hist: hist, Plan: plan, Serial: serial, MaxPar: maxpar, Buffer: r.chance(1, 3)}
				res := newRes(map[string]interface{}{"spec": spec})
				res.Cells = []string{fmt.Sprintf("small|n=%d|%s|buffer=%v", n, mname, spec.Buffer)}
				if v := runAll(spec, 400, res, allProps); v != nil {
					return v
				}
				if len(edges) > 0 {
					res.Sig = specShape(spec)
				}
				return res
			}
			// random beyond
			n := 4 + r.intn(9)
			edges := randomDag(r, n, 15+r.intn(35))
			plan, retries := randomPlan(r, n, 20)
			serial, maxpar, mname := modeOf(r.intn(4))
			if maxpar == 2 {
				maxpar = 2 + r.intn(3)
			}
			hist := canonHist(r, n, edges, retries)
			if r.chance(1, 3) { // tasks added again (before or after they got edges): the declared dependencies must survive
				for k := r.intn(3); k >= 0; k-- {
					pos := r.intn(len(hist) + 1)
					hist = append(hist[:pos], append([]Call{{Op: "add", A: r.intn(n)}}, hist[pos:]...)...)
				}
			}
			spec := &Spec{N: n, Hist: hist, Plan: plan, Serial: serial, MaxPar: maxpar, PSeed: r.u64(), Buffer: r.chance(1, 3), CtxErrs: r.chance(1, 3), Literal: r.chance(1, 4), WrapSkip: r.chance(1, 3), Percent: r.chance(1, 5)}
			spec.AttemptErrs, spec.NestedErrs, spec.Colon = r.chance(1, 3), r.chance(1, 4), r.chance(1, 8)
			if spec.Buffer && r.chance(1, 2) {
				spec.QuietMask = r.intn(1 << uint(n)) // tasks that write nothing
				for t := range retries {
					if retries[t] == 0 && r.chance(1, 3) {
						spec.Hist = append(spec.Hist, Call{Op: "retries", A: t, R: 1 + r.intn(2)}) // retries configured, first attempt succeeds: entered once
					}
				}
			}
			if r.chance(1, 8) {
				spec.PreTasks, spec.PreFail = 2, true // an earlier failed Run of the same graph
			}
			switch r.intn(4) {
			case 0, 1:
				spec.Policy = "rand"
			case 2:
				spec.Policy = "all"
			default:
				spec.Policy = "eager"
				spec.HoldUS = r.intn(150)
			}
			res := newRes(map[string]interface{}{"spec": spec})
			res.Cells = []string{fmt.Sprintf("random|%s|%s", spec.Policy, mname)}
			reps := 1
			if spec.Policy != "rand" {
				reps = 3
			}
			for k := 0; k < reps; k++ {
				if v := runOne(spec, res, allProps); v != nil {
					return v
				}
				spec.PSeed++
			}
			if len(edges) > 0 {
				res.Sig = specShape(spec)
			}
			return res
		},
	})

	// --------------------------------------------------------------------------------------------
	// C14: outcomes x orders x cancel points
	fw.Register(&fw.Check{
		ID:            "C14",
		Race:          true,
		WorkersPerCPU: 3,
		Technique:     "runtime monitoring under the Go race detector: outcome rules over the event log, the returned *dag.Errors (errors.As / errors.Is per entry) and the recorded Logger lines of real Graph.Run executions, with controller-placed cancellation points",
		Rule: "every DAG on n<=3 (quick) / n<=4 (thorough) vertices x outcome assignment over {ok, err, ErrorSkipParents, retry scripts} x cancel point {none, before Run, after the k-th release for every k, from inside each task} x mode, each under EVERY completion order (n<=3) or PRNG orders; random DAGs up to 10 vertices beyond; contexts that end with Canceled or DeadlineExceeded, task errors wrapping context errors, buffered output, an earlier failed Run of the same graph; skip lattices (2-3 independent ErrorSkipParents sources sharing a dependent that has dependents, beside unrelated tasks); " +
			"distinct = (graph, plan, mode, cancel point); non-trivial = at least one task fails, skips its parents or the context is cancelled",
		Assumptions: append(common, "tasks already launched and waiting for a SetMaxParallel slot when cancellation is seen count as in flight (DESIGN N1); counted in evidence"),
		Cases: func(tier string) int {
			if tier == "thorough" {
				return 900000 + 30000
			}
			return 6000 + 400
		},
		PerCaseTimeoutS: 120,
		Run: func(seed uint64, idx int, tier string) *fw.Result {
			base := 6000
			if tier == "thorough" {
				base = 900000
			}
			if idx >= base {
				return skipLatticeCase(seed, idx, allProps)
			}
			r := newRng(seed, "C14", idx)
			maxN := 3
			if tier == "thorough" && idx%2 == 1 {
				maxN = 4
			}
			var n int
			var edges [][2]int
			exhaustiveOrders := true
			if idx%5 == 4 {
				n = 4 + r.intn(7)
				edges = randomDag(r, n, 20+r.intn(30))
				exhaustiveOrders = false
			} else {
				n = 1 + r.intn(maxN)
				edges = edgesOf(n, r.intn(1<<uint(nPairs(n))))
			}
			plan, retries := randomPlan(r, n, 45)
			serial, maxpar, mname := modeOf(idx / 5)
			spec := &Spec{N: n, Hist: canonHist(r, n, edges, retries), Plan: plan, Serial: serial, MaxPar: maxpar, PSeed: r.u64(), Buffer: r.chance(1, 4)}
			spec.AttemptErrs, spec.NestedErrs, spec.Colon = r.chance(1, 2), r.chance(1, 3), r.chance(1, 8)
			switch (idx / 20) % 6 {
			case 0, 1:
			case 2:
				spec.Cancel = Cancel{Kind: "before-run"}
			case 3, 4:
				spec.Cancel = Cancel{Kind: "after-release", K: 1 + r.intn(n)}
			case 5:
				spec.Cancel = Cancel{Kind: "inside-task", K: r.intn(n)}
			}
			spec.CtxErrs = r.chance(1, 3)
			spec.WrapSkip = r.chance(1, 3)
			spec.Percent = r.chance(1, 4)
			if spec.Cancel.Kind != "" && r.chance(1, 3) {
				spec.Deadline = true
			}
			if spec.Cancel.Kind == "" && r.chance(1, 10) {
				spec.PreTasks, spec.PreFail = 2, true
			}
			ck := spec.Cancel.Kind
			if ck == "" {
				ck = "none"
			}
			if spec.Deadline {
				ck += "(deadline)"
			}
			holdCase := spec.Cancel.Kind == "after-release" && !(exhaustiveOrders && n <= 3) && (idx/120)%8 == 3
			if holdCase {
				spec.HoldAfterCancelMS = 2500 // in-flight tasks that outlive the cancellation by seconds (a handful of cases)
			}
			res := newRes(map[string]interface{}{"spec": spec})
			res.Cells = []string{fmt.Sprintf("cancel=%s|%s|n=%d", ck, mname, n)}
			if exhaustiveOrders && n <= 3 {
				if v := runAll(spec, 300, res, allProps); v != nil {
					return v
				}
			} else {
				for k := 0; k < 4; k++ {
					spec.Policy = "rand"
					if v := runOne(spec, res, allProps); v != nil {
						return v
					}
					spec.PSeed++
					spec.HoldAfterCancelMS = 0 // the long hold once per case
				}
			}
			if holdCase {
				res.Cells = append(res.Cells, "hold-after-cancel")
			}
			nontrivial := spec.Cancel.Kind != ""
			for _, p := range plan {
				if p[len(p)-1] != OK || len(p) > 1 {
					nontrivial = true
				}
			}
			if nontrivial {
				res.Sig = specShape(spec)
			}
			return res
		},
	})

	// --------------------------------------------------------------------------------------------
	// C15: bounds, serial, shared tasks, buffered output
	fw.Register(&fw.Check{
		ID:            "C15",
		Race:          true,
		WorkersPerCPU: 3,
		Technique:     "runtime monitoring under the Go race detector: live-task counter and interval checker over the event log (bound, serial, per-Task mutual exclusion across concurrently running graphs), contiguity checker over the bytes received by a deliberately unsynchronized writer, plain shared counters raced on purpose",
		Rule: "saturating workloads: wide/layered DAGs with more ready tasks than the limit m (m=1..5, serial), tasks held open by the controller so the bound is pressed (runs reaching peak==limit are counted); 2-4 graphs over the same Task objects run concurrently (eager, tasks hold up to 200us); output buffering with several chunks per attempt (also above 64 KiB) under 'release everything at once' and eager policies, retries included; cancellation while all slots are held and further tasks wait for one; an earlier Run of the same Graph object with a larger limit; shared-task workloads with some graphs in serial mode and struct-literal tasks; " +
			"distinct = (graph, plan, mode, policy); non-trivial = more tasks can be ready than the bound allows, or graphs share tasks, or output is buffered",
		Assumptions: common,
		Cases: func(tier string) int {
			if tier == "thorough" {
				return 400000
			}
			return 3200
		},
		PerCaseTimeoutS: 120,
		Run: func(seed uint64, idx int, tier string) *fw.Result {
			r := newRng(seed, "C15", idx)
			kind := idx % 4
			var spec *Spec
			var cell string
			switch kind {
			case 0, 1: // bound / serial, controlled
				n := 3 + r.intn(8)
				edges := randomDag(r, n, r.intn(25))
				plan, retries := randomPlan(r, n, 10)
				spec = &Spec{N: n, Hist: canonHist(r, n, edges, retries), Plan: plan, PSeed: r.u64()}
				if kind == 1 && r.chance(1, 2) {
					spec.Serial = true
					cell = "serial"
				} else {
					spec.MaxPar = 1 + r.intn(5)
					cell = fmt.Sprintf("limit=%d", spec.MaxPar)
				}
				spec.Policy = []string{"rand", "rand", "all", "eager"}[r.intn(4)]
				spec.HoldUS = 100
				spec.Buffer = r.chance(1, 3)
				cell += "|" + spec.Policy
				switch {
				case spec.MaxPar > 1 && (idx/4)%3 == 0:
					spec.LimitFirst = 1 // a limit of one that is raised afterwards
					cell += "|limit-set-twice"
				case spec.MaxPar > 0 && (idx/4)%3 == 1:
					spec.LimitFirst = spec.MaxPar + 3 // ... or a larger one that is lowered
					cell += "|limit-set-twice"
				}
				if spec.MaxPar > 0 && r.chance(1, 4) {
					// the same Graph object was run before with a larger limit: the limit in force is the one set last
					spec.PreTasks = 2 + r.intn(4)
					spec.PreMaxPar = spec.MaxPar + 1 + r.intn(4)
					spec.PreLink = r.chance(1, 2)
					cell += "|second-run-lower-limit"
				}
				if spec.Policy != "eager" && r.chance(1, 3) {
					// cancellation while the slots are held and further tasks are queued for one
					spec.Cancel = Cancel{Kind: "after-release", K: 1 + r.intn(2)}
					if r.chance(1, 3) {
						spec.Cancel = Cancel{Kind: "inside-task", K: r.intn(n)}
					}
					cell += "|cancel"
				}
			case 2: // shared tasks across graphs
				n := 2 + r.intn(6)
				edges := randomDag(r, n, r.intn(30))
				onlyG0 := (idx/4)%3 == 1
				failPct := 10
				if onlyG0 {
					failPct = 30 // retries matter for failing attempts only
				}
				plan, retries := randomPlan(r, n, failPct)
				spec = &Spec{N: n, Hist: canonHist(r, n, edges, retries), Plan: plan, Policy: "eager", HoldUS: 50 + r.intn(150), NGraphs: 2 + r.intn(3), PSeed: r.u64()}
				spec.ViaLookup = idx%3 == 0
				spec.RetriesOnlyG0 = onlyG0
				spec.Redefine = (idx/4)%5 == 2
				spec.Space = (idx/4)%2 == 1 // lookups through Graph.Task with IDs that end in a blank
				if r.chance(1, 2) {
					spec.MaxPar = 1 + r.intn(2)
				}
				if r.chance(1, 2) {
					spec.SerialMask = 1 + r.intn((1<<uint(spec.NGraphs))-1) // at least one of the graphs is serial
				}
				spec.Literal = r.chance(1, 3)
				cell = fmt.Sprintf("shared|graphs=%d|some-serial=%v", spec.NGraphs, spec.SerialMask != 0)
			default: // buffered output
				n := 2 + r.intn(8)
				edges := randomDag(r, n, r.intn(20))
				plan, retries := randomPlan(r, n, 25)
				for t := range retries {
					if retries[t] == 0 && len(plan[t]) == 1 && r.chance(1, 4) {
						retries[t] = 1 + r.intn(2) // retries configured, the only attempt decides
					}
				}
				spec = &Spec{N: n, Hist: canonHist(r, n, edges, retries), Plan: plan, Buffer: true, Chunks: 2 + r.intn(5), PSeed: r.u64()}
				if r.chance(1, 3) {
					spec.QuietMask = r.intn(1 << uint(n)) // tasks that write nothing
				}
				spec.Nested = spec.QuietMask&1 == 0 && r.chance(1, 3)
				spec.NestedPlain = spec.Nested && r.chance(1, 2)
				spec.Lines = (idx/4)%2 == 1 // the output is made of complete lines
				spec.ValWriter = r.chance(1, 4)
				spec.Policy = []string{"all", "eager", "rand"}[r.intn(3)]
				spec.HoldUS = r.intn(50)
				if r.chance(1, 3) {
					spec.MaxPar = 2 + r.intn(3)
				}
				if n <= 5 && r.chance(1, 4) {
					spec.ChunkBytes = 30000 + r.intn(40000) // more than 64 KiB per attempt
					spec.Chunks = 2 + r.intn(2)
				}
				cell = fmt.Sprintf("buffer|%s|large=%v", spec.Policy, spec.ChunkBytes > 0)
			}
			res := newRes(map[string]interface{}{"spec": spec})
			res.Cells = []string{cell}
			reps := 3
			for k := 0; k < reps; k++ {
				if v := runOne(spec, res, allProps); v != nil {
					return v
				}
				tr := lastTrace
				if spec.MaxPar > 0 && tr.Peak == spec.MaxPar {
					res.Counters["runs_reaching_peak==limit"]++
				}
				if spec.Serial && tr.Peak == 1 {
					res.Counters["serial_runs"]++
				}
				spec.PSeed++
			}
			res.Sig = specShape(spec)
			return res
		},
	})

	// --------------------------------------------------------------------------------------------
	// C16: construction histories, cycles, DepthFirstSort, work conservation
	fw.Register(&fw.Check{
		ID:            "C16",
		Race:          true,
		WorkersPerCPU: 3,
		Technique:     "runtime monitoring under the Go race detector: invariants at the scheduler's idle-tick and loop-iteration hooks decided in logical time (fixpoint = deadlock, silent iterations = spinning scheduler, launched-but-not-entered tasks with free capacity = work conservation), goroutine-dump check that every task goroutine is blocked before any no-progress verdict, work-conservation check at fresh quiescent points, cycle/definition-error rule and topological check of DepthFirstSort, all on real graphs built by public-API call histories",
		Rule: "construction histories over 3 tasks: ALL call sequences of length <= 4 (thorough: <= 5 sampled exhaustively by index) over {AddTask(x), TaskDependsOn(x,y), TaskDependsOn(x,y,z), TaskRetries(x,1), TaskRetries(x,0)} incl. re-adding known tasks before/after they got edges, duplicate edges, self edges, cycles, nil tasks, edges declared before AddTask; every history is run to completion or to a verdict under all outcomes ok and under random outcome plans, orders by DFS (small) or PRNG; " +
			"random DAGs up to 12 vertices (with retries, failing scripts and cancellation points, DepthFirstSort called while the graph is still being built, a failing output writer, a limit of one that is raised before the run) for work conservation and bounded progress; retry storms (1-3 tasks with up to 5 failed attempts each, buffered or not); distinct = (history, plan, mode); non-trivial = the history re-adds a task, duplicates an edge, contains a cycle or has at least one edge",
		Assumptions: common,
		Cases: func(tier string) int {
			if tier == "thorough" {
				return histCases(4) + 600000 + 20000
			}
			return histCases(3) + 4000 + 300
		},
		PerCaseTimeoutS: 120,
		Run: func(seed uint64, idx int, tier string) *fw.Result {
			r := newRng(seed, "C16", idx)
			maxLen := 3
			if tier == "thorough" {
				maxLen = 4
			}
			if base := histCases(maxLen) + map[bool]int{false: 4000, true: 600000}[tier == "thorough"]; idx >= base {
				return retryStormCase(seed, idx, allProps)
			}
			var hist []Call
			var cell string
			colon := false
			n := 3
			if idx < histCases(maxLen) {
				hist = decodeHist(idx, maxLen)
				cell = fmt.Sprintf("history|len=%d", len(hist))
			} else if idx%3 == 0 {
				// random longer histories
				l := 4 + r.intn(6)
				for i := 0; i < l; i++ {
					hist = append(hist, histCall(r.intn(nHistCalls)))
				}
				if r.chance(1, 6) {
					hist = append(hist, Call{Op: []string{"addnil", "depnil", "addnofn"}[r.intn(3)], A: r.intn(3)})
				}
				if r.chance(1, 8) {
					a := r.intn(3)
					hist = append(hist, Call{Op: "dep", A: a, B: []int{(a + 1) % 3, (a + 1) % 3, (a + 2) % 3}}) // the same dependency twice in one call
				}
				cell = "history|random-long"
			} else {
				n = 4 + r.intn(9)
				edges := randomDag(r, n, 10+r.intn(40))
				if colon = r.chance(1, 6); colon {
					// both edges whose "<id>:<dependency id>" texts coincide under the colon IDs
					for _, need := range [][2]int{{1, 0}, {3, 2}} {
						have := false
						for _, e := range edges {
							if e == need {
								have = true
							}
						}
						if !have {
							edges = append(edges, need)
						}
					}
				}
				retries := make([]int, n)
				for t := range retries {
					if r.chance(1, 3) {
						retries[t] = 1 + r.intn(2) // retries configured whatever the outcome plan: failing attempts re-enter
					}
				}
				if r.chance(1, 10) {
					retries[r.intn(n)] = -1 - r.intn(3) // a negative count is "no retries": the task still runs once
				}
				hist = canonHist(r, n, edges, retries)
				// re-add some known tasks at the end or in the middle
				if r.chance(1, 2) {
					for k := r.intn(3); k >= 0; k-- {
						pos := r.intn(len(hist) + 1)
						c := Call{Op: "add", A: r.intn(n)}
						hist = append(hist[:pos], append([]Call{c}, hist[pos:]...)...)
					}
				}
				cell = "random-dag|work-conservation"
			}
			m := BuildModel(n, hist)
			plan := make([][]int, n)
			for t := range plan {
				plan[t] = scripts[0]
			}
			if r.chance(1, 3) {
				plan, _ = randomPlan(r, n, 30)
				// retries as the history says; scripts only define outcomes per attempt
			}
			serial, maxpar, mname := modeOf(r.intn(4))
			spec := &Spec{N: n, Hist: hist, Plan: plan, Serial: serial, MaxPar: maxpar, PSeed: r.u64()}
			if idx >= histCases(maxLen) && r.chance(1, 3) {
				// Run must return under cancellation too (retries, failures and cancellation combined)
				// every failing script fails all its attempts or succeeds late: with retries configured in the history the
				// task function is re-entered after the cancellation
				plan = make([][]int, n)
				for t := range plan {
					plan[t] = [][]int{{OK}, {ERR}, {ERR, OK}, {ERR, ERR, OK}, {SKIPPARENTS}, {OK}}[r.intn(6)]
				}
				spec.Plan = plan
				spec.Cancel = Cancel{Kind: []string{"after-release", "inside-task", "before-run"}[r.intn(3)], K: 1 + r.intn(2)}
				if spec.Cancel.Kind == "inside-task" {
					spec.Cancel.K = r.intn(n)
				}
			}
			spec.TickerZero = r.chance(1, 15)
			spec.Colon = colon
			if spec.MaxPar > 1 && (idx/3)%2 == 1 {
				spec.LimitFirst = 1 // SetMaxParallel(1) first, the real limit afterwards: capacity is what was set last
			}
			if idx >= histCases(maxLen) && !m.DefErr && !m.Cycle && r.chance(1, 8) {
				// the graph has been run before (a chain of tasks that completed); half of the new tasks depend on one of them
				spec.PreTasks, spec.PreLink = 2+r.intn(3), true
				spec.PreSkip = r.chance(1, 3)
				if r.chance(1, 3) {
					// ... and is extended through TaskDependsOn only (tasks are added implicitly), without a limit of its own
					hist = nil
					for t := 1; t < n; t++ {
						hist = append(hist, Call{Op: "dep", A: t, B: []int{t - 1 - r.intn(t)}})
					}
					spec.Hist, spec.MaxPar, spec.Serial = hist, 0, false
					m = BuildModel(n, hist)
				}
			}
			spec.Space = r.chance(1, 10)
			if idx >= histCases(maxLen) && r.chance(1, 25) {
				// wide and uncontrolled: one ErrorSkipParents task with dozens of dependents next to dozens of short independent
				// tasks, everything completing at about the same time (completions of skipped vertices compete with real ones)
				n = 80 + r.intn(80)
				half := n / 2
				var edges [][2]int
				for t := 1; t <= half; t++ {
					edges = append(edges, [2]int{t, 0})
				}
				plan = make([][]int, n)
				for t := range plan {
					plan[t] = scripts[0]
				}
				plan[0] = scripts[2]
				hist = canonHist(r, n, edges, make([]int, n))
				m = BuildModel(n, hist)
				spec = &Spec{N: n, Hist: hist, Plan: plan, PSeed: r.u64(), Policy: "eager", MaxPar: []int{0, 0, 4, 16}[r.intn(4)]}
				cell = "wide-skip|uncontrolled"
			}
			if idx >= histCases(maxLen) && r.chance(1, 500) {
				// more ready tasks than any plausible built-in default limit, all held open: every one of them must get started
				n = 300
				plan = make([][]int, n)
				for t := range plan {
					plan[t] = scripts[0]
				}
				hist = canonHist(r, n, nil, make([]int, n))
				m = BuildModel(n, hist)
				spec = &Spec{N: n, Hist: hist, Plan: plan, PSeed: r.u64(), Policy: "all"}
				cell = "very-wide|controlled"
			}
			spec.Percent = r.chance(1, 8)
			if len(hist) > 1 && r.chance(1, 3) {
				spec.SortAt = 1 + r.intn(len(hist)-1) // DepthFirstSort called while the graph is still being built
			}
			if r.chance(1, 6) {
				spec.Buffer, spec.WriterFails = true, true // Run must return although the output writer fails
				spec.WriterDead = r.chance(1, 2)           // ... or accepts nothing at all
				spec.Policy = "all"
			}
			res := newRes(map[string]interface{}{"spec": spec})
			cl := "acyclic"
			if m.Cycle {
				cl = "cycle"
			}
			if m.DefErr {
				cl += "+deferr"
			}
			if m.ReAdd {
				cl += "+readd"
			}
			res.Cells = []string{cell + "|" + cl + "|" + mname}
			if len(m.Tasks) <= 3 {
				if v := runAll(spec, 100, res, allProps); v != nil {
					return v
				}
			} else {
				for k := 0; k < 3; k++ {
					spec.Policy = "rand"
					if strings.HasPrefix(cell, "wide-skip") {
						spec.Policy, spec.Buffer, spec.WriterFails = "eager", false, false
					}
					if strings.HasPrefix(cell, "very-wide") {
						spec.Policy, spec.Buffer, spec.WriterFails = "all", false, false
					}
					if v := runOne(spec, res, allProps); v != nil {
						return v
					}
					spec.PSeed++
				}
			}
			if m.ReAdd || m.DefErr || m.Cycle || len(m.Deps) > 0 {
				res.Sig = specShape(spec)
			}
			return res
		},
	})
}

// history alphabet over 3 tasks: add(x) [3], dep(x,y) [9 incl. self edges], retries(x,1) [3], dep(x,y,z) with two deps [6], retries(x,0) [3]
const nHistCalls = 3 + 9 + 3 + 6 + 3

func histCall(k int) Call {
	switch {
	case k < 3:
		return Call{Op: "add", A: k}
	case k < 12:
		k -= 3
		return Call{Op: "dep", A: k / 3, B: []int{k % 3}}
	case k < 15:
		return Call{Op: "retries", A: k - 12, R: 1}
	}
	if k >= 21 {
		return Call{Op: "retries", A: k - 21, R: 0} // a later call with 0 takes an earlier count back
	}
	k -= 15
	a := k / 2
	others := []int{}
	for x := 0; x < 3; x++ {
		if x != a {
			others = append(others, x)
		}
	}
	if k%2 == 1 {
		others[0], others[1] = others[1], others[0]
	}
	return Call{Op: "dep", A: a, B: others}
}

func histCases(maxLen int) int {
	t, p := 0, 1
	for l := 1; l <= maxLen; l++ {
		p *= nHistCalls
		t += p
	}
	return t
}

func decodeHist(idx, maxLen int) []Call {
	p := 1
	for l := 1; l <= maxLen; l++ {
		p *= nHistCalls
		if idx < p {
			var h []Call
			for i := 0; i < l; i++ {
				h = append(h, histCall(idx%nHistCalls))
				idx /= nHistCalls
			}
			return h
		}
		idx -= p
	}
	return []Call{{Op: "add", A: 0}}
}
