// Package dagx - DAG-side harness: controlled-schedule runner around the real dag.Graph.Run,
// sequence-numbered event log, idle-tick hook, offline monitors (C13-C16).
package dagx

import (
	"bytes"
	"context"
	"errors"
	"fmt"
	"io"
	"regexp"
	"runtime"
	"sort"
	"strconv"
	"strings"
	"sync"
	"sync/atomic"
	"time"

	"github.com/DavidGamba/go-getoptions"
	"github.com/DavidGamba/go-getoptions/dag"
)

// Outcome of one attempt.
const (
	OK = iota
	ERR
	SKIPPARENTS
)

var outcomeNames = []string{"ok", "err", "skipparents"}

// Call - one graph-construction call of a history.
type Call struct {
	Op string `json:"op"` // add, dep, retries, addnil, depnil
	A  int    `json:"a"`
	B  []int  `json:"b,omitempty"`
	R  int    `json:"r,omitempty"`
}

func (c Call) String() string {
	switch c.Op {
	case "add":
		return fmt.Sprintf("AddTask(t%d)", c.A)
	case "dep":
		s := fmt.Sprintf("TaskDependsOn(t%d", c.A)
		for _, b := range c.B {
			s += fmt.Sprintf(", t%d", b)
		}
		return s + ")"
	case "retries":
		return fmt.Sprintf("TaskRetries(t%d, %d)", c.A, c.R)
	case "addnil":
		return "AddTask(nil)"
	case "addnofn":
		return fmt.Sprintf("AddTask(&Task{ID: t%d, Fn: nil})", c.A)
	case "depnil":
		return fmt.Sprintf("TaskDependsOn(t%d, nil)", c.A)
	}
	return c.Op
}

// Cancel point.
type Cancel struct {
	Kind     string `json:"kind"` // "", before-run, after-release, inside-task
	K        int    `json:"k,omitempty"`
	WaitIdle bool   `json:"wait_idle,omitempty"`
}

// Spec - one run: construction history, outcome plan, mode, schedule policy, cancel point.
type Spec struct {
	N      int     `json:"n"`
	Hist   []Call  `json:"hist"`
	Plan   [][]int `json:"plan"` // per task: outcome per attempt (last entry repeats)
	Serial bool    `json:"serial,omitempty"`
	MaxPar int     `json:"maxpar,omitempty"` // 0 = not set
	Buffer bool    `json:"buffer,omitempty"`
	Policy string  `json:"policy"` // dfs, rand, all, eager
	Prefix []int   `json:"prefix,omitempty"`
	PSeed  uint64  `json:"pseed,omitempty"`
	Cancel Cancel  `json:"cancel"`
	HoldUS int     `json:"hold_us,omitempty"` // eager policy: how long a task holds (max, microseconds)
	Chunks int     `json:"chunks,omitempty"`
	// Pre - the same Graph object is first run once with PreTasks trivial independent tasks under limit PreMaxPar
	// (uncontrolled, not logged); only then the history is applied, the limit is set to MaxPar and the monitored run starts.
	PreTasks int `json:"pre_tasks,omitempty"`
	// PreLink - the preliminary tasks form a chain (pre k depends on pre k-1); after that Run every second task of the
	// history is made to depend on a task that has already completed, and the graph is sorted once more
	PreLink bool `json:"pre_link,omitempty"`
	// PreSkip - with PreLink: the first task of the preliminary chain returns ErrorSkipParents, so the rest of the chain is
	// skipped in the preliminary Run - and must stay that way in the Run that follows
	PreSkip           bool `json:"pre_skip,omitempty"`
	PreMaxPar         int  `json:"pre_maxpar,omitempty"`
	SerialMask        int  `json:"serial_mask,omitempty"`          // bit g set: graph g of a shared-task workload runs in serial mode
	WrapSkip          bool `json:"wrap_skip,omitempty"`            // ErrorSkipParents is returned wrapped in another error (fmt.Errorf("...: %w", ...))
	Percent           bool `json:"percent,omitempty"`              // graph name and task IDs contain a percent sign
	TickerZero        bool `json:"ticker_zero,omitempty"`          // Graph.TickerDuration = 0 (no polling delay)
	PreFail           bool `json:"pre_fail,omitempty"`             // one task of the preliminary run fails: the graph has recorded an error
	Deadline          bool `json:"deadline,omitempty"`             // the context ends with DeadlineExceeded instead of Canceled (custom Context)
	CtxErrs           bool `json:"ctx_errs,omitempty"`             // failing tasks return errors that wrap context.Canceled / DeadlineExceeded (their own timeouts)
	Literal           bool `json:"literal,omitempty"`              // tasks are built as &dag.Task{ID, Fn} literals instead of dag.NewTask
	ChunkBytes        int  `json:"chunk_bytes,omitempty"`          // filler bytes per output chunk (large outputs)
	SortAt            int  `json:"sort_at,omitempty"`              // >0: DepthFirstSort is also called after that many construction calls
	WriterFails       bool `json:"writer_fails,omitempty"`         // the output writer returns an error on every second write
	WriterDead        bool `json:"writer_dead,omitempty"`          // with WriterFails: the writer accepts nothing at all (a closed file): (0, error) on every write
	NGraphs           int  `json:"ngraphs,omitempty"`              // >1: several graphs over the same Tasks run concurrently (eager only)
	ViaLookup         bool `json:"via_lookup,omitempty"`           // graphs 1.. get the shared tasks through Graph.Task(id) of graph 0 instead of the caller's pointers
	AttemptErrs       bool `json:"attempt_errs,omitempty"`         // every attempt of a task returns its own error value (wrapping the task's sentinel): the reported entry must be the final attempt's
	NestedErrs        bool `json:"nested_errs,omitempty"`          // some tasks fail with an error that wraps a *dag.Errors (the result of a nested Run), one of them with an empty list
	RetriesOnlyG0     bool `json:"retries_only_g0,omitempty"`      // shared-task workloads: TaskRetries calls are made on graph 0 only, the other graphs use the tasks without retries
	Colon             bool `json:"colon,omitempty"`                // task IDs with colons chosen so that "<id>:<dependency id>" of two different edges is the same text
	QuietMask         int  `json:"quiet_mask,omitempty"`           // buffered runs: tasks (bit i) that write nothing
	Space             bool `json:"space,omitempty"`                // task IDs end in a blank (IDs are compared as written, lookups included)
	Redefine          bool `json:"redefine,omitempty"`             // shared-task workloads: graphs 1.. first define every ID with a private Task object and, after the history, once more with the shared one
	ValWriter         bool `json:"val_writer,omitempty"`           // the output writer is passed as a struct value with a slice field (not comparable, not hashable)
	NestedPlain       bool `json:"nested_plain,omitempty"`         // with Nested: the inner graph does not buffer: its tasks inherit the outer task's buffer through the context
	HoldAfterCancelMS int  `json:"hold_after_cancel_ms,omitempty"` // the controller waits this long after the cancellation before it releases the next in-flight attempt
	Lines             bool `json:"lines,omitempty"`                // buffered runs: the output consists of complete lines (every tag and every 80 filler bytes end in a newline)
	LimitFirst        int  `json:"limit_first,omitempty"`          // >0: SetMaxParallel(LimitFirst) is called before SetMaxParallel(MaxPar): the limit set last is the one in force
	Nested            bool `json:"nested,omitempty"`               // buffered runs: the first attempt of task 0 runs a buffered graph of its own (three writing tasks) with the context it was given
}

// Model - what the history is supposed to mean (from the documented API semantics).
type Model struct {
	Tasks        []int // task indices that are part of the graph
	Deps         map[int][]int
	Retries      map[int]int
	DefErr       bool // the definition recorded an error (duplicate edge, nil task)
	Cycle        bool
	ReAdd        bool // a task was re-added after it was already known
	InGraph      map[int]bool
	RetriesExact bool
}

// BuildModel - interprets a history.
func BuildModel(n int, hist []Call) *Model {
	m := &Model{Deps: map[int][]int{}, Retries: map[int]int{}, InGraph: map[int]bool{}, RetriesExact: true}
	add := func(t int) {
		if !m.InGraph[t] {
			m.InGraph[t] = true
			m.Tasks = append(m.Tasks, t)
		}
	}
	retriesSet := map[int]bool{}
	for _, c := range hist {
		switch c.Op {
		case "add":
			if m.InGraph[c.A] {
				m.ReAdd = true
				if retriesSet[c.A] {
					m.RetriesExact = false
				}
			}
			add(c.A)
		case "addnil":
			m.DefErr = true
		case "addnofn":
			m.DefErr = true // a task without a function is a definition error whether or not its ID is known
		case "depnil":
			add(c.A)
			m.DefErr = true
		case "retries":
			add(c.A)
			m.Retries[c.A] = c.R
			if c.R < 0 {
				m.Retries[c.A] = 0 // a negative number of retries means none: one attempt
			}
			retriesSet[c.A] = true
		case "dep":
			add(c.A)
			stop := false
			for _, b := range c.B {
				if stop {
					break
				}
				add(b)
				dup := false
				for _, x := range m.Deps[c.A] {
					if x == b {
						dup = true
					}
				}
				if dup {
					m.DefErr = true
					stop = true // the library stops processing this call at the duplicate
					continue
				}
				m.Deps[c.A] = append(m.Deps[c.A], b)
			}
		}
	}
	// cycle detection
	state := map[int]int{}
	var visit func(t int) bool
	visit = func(t int) bool {
		if state[t] == 2 {
			return false
		}
		if state[t] == 1 {
			return true
		}
		state[t] = 1
		for _, d := range m.Deps[t] {
			if visit(d) {
				return true
			}
		}
		state[t] = 2
		return false
	}
	for _, t := range m.Tasks {
		if visit(t) {
			m.Cycle = true
		}
	}
	sort.Ints(m.Tasks)
	return m
}

// TransDependents - tasks that transitively depend on t.
func (m *Model) TransDependents(t int) map[int]bool {
	out := map[int]bool{}
	changed := true
	for changed {
		changed = false
		for _, x := range m.Tasks {
			if out[x] {
				continue
			}
			for _, d := range m.Deps[x] {
				if d == t || out[d] {
					out[x] = true
					changed = true
					break
				}
			}
		}
	}
	return out
}

// Event kinds.
const (
	EvEnter = iota
	EvExit
	EvCancel
	EvRunReturn
	EvRunStart
)

type Event struct {
	Seq     int    `json:"seq"`
	Kind    int    `json:"kind"`
	Graph   int    `json:"graph"`
	Task    int    `json:"task"`
	Attempt int    `json:"attempt"`
	Outcome int    `json:"outcome"`
	Seen    []int  `json:"seen,omitempty"` // values read from the dependencies' plain cells on entry
	Note    string `json:"note,omitempty"`
}

func (e Event) String() string {
	switch e.Kind {
	case EvEnter:
		return fmt.Sprintf("%d:enter(g%d,t%d#%d)", e.Seq, e.Graph, e.Task, e.Attempt)
	case EvExit:
		return fmt.Sprintf("%d:exit(g%d,t%d#%d,%s)", e.Seq, e.Graph, e.Task, e.Attempt, outcomeNames[e.Outcome])
	case EvCancel:
		return fmt.Sprintf("%d:cancel-returned", e.Seq)
	case EvRunReturn:
		return fmt.Sprintf("%d:run-returned(g%d)", e.Seq, e.Graph)
	case EvRunStart:
		return fmt.Sprintf("%d:run-start(g%d)", e.Seq, e.Graph)
	}
	return "?"
}

// Trace - everything recorded about one run.
type Trace struct {
	Events                 []Event      `json:"events"`
	RunErr                 []string     `json:"run_err"` // per graph: "" = nil
	ErrIsCycle             []bool       `json:"err_is_cycle"`
	ErrAsErrors            []bool       `json:"err_as_errors"`
	ErrEntries             [][]ErrEntry `json:"err_entries"`
	LogLines               []string     `json:"log_lines,omitempty"`
	Peak                   int          `json:"peak"`
	Choices                [][2]int     `json:"choices,omitempty"` // (chosen, alternatives) per controlled release
	Deadlock               bool         `json:"deadlock,omitempty"`
	DeadlockSnap           string       `json:"deadlock_snapshot,omitempty"`
	Timeout                string       `json:"timeout,omitempty"`
	IdleTicks              int          `json:"idle_ticks"`
	Quiescent              []QPoint     `json:"quiescent,omitempty"`
	BlockedQuiescent       int          `json:"blocked_quiescent,omitempty"` // quiescent points taken while the scheduler sat inside one iteration
	ParkedAtReturn         int          `json:"parked_at_return,omitempty"`
	Output                 string       `json:"output,omitempty"`
	OutputWrites           int          `json:"output_writes,omitempty"`
	OutputRead             bool         `json:"output_read,omitempty"` // every Run returned: the plain writer was read
	SecondRun              bool         `json:"second_run,omitempty"`  // a cyclic graph was run a second time
	SecondIsCycle          bool         `json:"second_is_cycle,omitempty"`
	SecondErr              string       `json:"second_err,omitempty"`
	PreExec                []int        `json:"pre_exec,omitempty"`     // executions of the preliminary tasks over both Runs
	PreSortBad             string       `json:"pre_sort_bad,omitempty"` // Spec.PreLink: DepthFirstSort after the preliminary Run was not dependencies-first
	InnerOutput            string       `json:"inner_output,omitempty"` // Spec.Nested: what the inner graph's own writer received
	InnerRan               bool         `json:"inner_ran,omitempty"`
	InnerErr               string       `json:"inner_err,omitempty"`
	SortIDs                []string     `json:"sort_ids,omitempty"`
	SortErr                string       `json:"sort_err,omitempty"`
	SerialCounter          int          `json:"serial_counter"`
	TaskCounters           []int        `json:"task_counters,omitempty"`
	CancelSeq              int          `json:"cancel_seq,omitempty"`
	LateEntriesAfterCancel int          `json:"late_entries_after_cancel,omitempty"`
	TicksAfterCancel       int          `json:"ticks_after_cancel,omitempty"`
	Stalled                string       `json:"stalled,omitempty"`
}

type ErrEntry struct {
	Text      string `json:"text"`
	IsSkipped bool   `json:"is_skipped"`
	IsTask    int    `json:"is_task"`           // index of the task whose sentinel it wraps, -1 none
	Attempt   int    `json:"attempt,omitempty"` // with Spec.AttemptErrs: the attempt whose error value the entry wraps
}

// QPoint - a quiescent point seen by the controller.
type QPoint struct {
	Seq     int   `json:"seq"`
	Parked  []int `json:"parked"`
	InProg  int   `json:"inprog"`
	Done    int   `json:"done"`
	Pending int   `json:"pending"`
	Skip    int   `json:"skip"`
	Fresh   bool  `json:"fresh"` // snapshot.done == final exits known to the controller
}

// ------------------------------------------------------------------------------------------------
// Idle hook state (one per graph name).

type hookState struct {
	snap    uint64 // atomic: tick<<40 | pending<<30 | inprog<<20 | skip<<10 | done
	abandon int32  // atomic
	tick    uint64 // owned by the scheduler goroutine
	loops   uint64 // atomic: iterations of the scheduler loop (every branch)
	lsnap   uint64 // atomic: pending<<30 | inprog<<20 | skip<<10 | done as seen at the top of the last iteration
}

var hooks sync.Map // graph name -> *hookState

func init() {
	dag.VerifIdle = func(name string, pending, inProgress, skip, done int) {
		v, ok := hooks.Load(name)
		if !ok {
			return
		}
		h := v.(*hookState)
		if atomic.LoadInt32(&h.abandon) == 1 {
			select {} // park the abandoned scheduler forever (verdict already taken)
		}
		h.tick++
		atomic.StoreUint64(&h.snap, h.tick<<40|uint64(pending&1023)<<30|uint64(inProgress&1023)<<20|uint64(skip&1023)<<10|uint64(done&1023))
	}
}

func init() {
	dag.VerifLoop = func(name string, pending, inProgress, skip, done int) {
		v, ok := hooks.Load(name)
		if !ok {
			return
		}
		h := v.(*hookState)
		if atomic.LoadInt32(&h.abandon) == 1 {
			select {} // park the abandoned scheduler forever (verdict already taken)
		}
		atomic.StoreUint64(&h.lsnap, uint64(pending&1023)<<30|uint64(inProgress&1023)<<20|uint64(skip&1023)<<10|uint64(done&1023))
		atomic.AddUint64(&h.loops, 1)
	}
}

// spinLimit - iterations of the scheduler loop without any visible effect (no vertex changing status, no idle tick, no task
// function entered or left) after which the scheduler is taken to spin: a correct scheduler completes, launches (at most once
// per vertex) or idles in every iteration, so the number of silent iterations is bounded by the number of vertices.
const spinLimit = 3000

func unpack(s uint64) (tick uint64, pending, inprog, skip, done int) {
	return s >> 40, int(s>>30) & 1023, int(s>>20) & 1023, int(s>>10) & 1023, int(s) & 1023
}

// ------------------------------------------------------------------------------------------------

type graphKeyT struct{}

var graphKey = graphKeyT{}

// plainWriter - deliberately unsynchronized recording writer (the race detector decides whether the library orders writes).
type plainWriter struct {
	buf    []byte
	writes int
	fails  bool
	dead   bool
	// deadCalls - atomic: calls of a writer that accepts nothing. An attempt's flush calls the writer a bounded number of
	// times; a count in the hundreds of thousands means a flush that retries forever.
	deadCalls int64
}

func (w *plainWriter) Write(p []byte) (int, error) {
	if w.dead {
		atomic.AddInt64(&w.deadCalls, 1) // nothing is kept: a caller that retries forever must not fill the memory
		return 0, errWriter
	}
	w.buf = append(w.buf, p...)
	w.writes++
	if w.fails && w.writes%2 == 0 {
		return len(p) / 2, errWriter
	}
	return len(p), nil
}

var errWriter = errors.New("verif: output writer failure")

// valWriter - an io.Writer passed by value whose type is neither comparable nor hashable (slice field).
type valWriter struct {
	w   *plainWriter
	pad []int
}

func (v valWriter) Write(p []byte) (int, error) { return v.w.Write(p) }

// deadlineCtx - a context that reports DeadlineExceeded when its parent is cancelled (a deadline, from the scheduler's point of view).
type deadlineCtx struct{ context.Context }

func (d deadlineCtx) Err() error {
	if d.Context.Err() != nil {
		return context.DeadlineExceeded
	}
	return nil
}

type lineRecorder struct {
	mu    sync.Mutex
	lines []string
}

func (l *lineRecorder) Write(p []byte) (int, error) {
	l.mu.Lock()
	l.lines = append(l.lines, strings.TrimRight(string(p), "\n"))
	l.mu.Unlock()
	return len(p), nil
}

type parkedTask struct {
	graph, task, attempt int
	ch                   chan struct{}
}

type runner struct {
	spec  *Spec
	model *Model
	names []string

	mu         sync.Mutex
	seq        int
	events     []Event
	parked     []*parkedTask
	finalExits int // attempts after which the task goroutine reports to the scheduler

	live int32
	peak int32

	cells        []int // plain, one per task: written as the last action of a successful... of every attempt
	serialCtr    int   // plain, incremented by every task in serial mode
	taskCounters []int // plain, per Task (shared-task workloads)

	attempts       [][]int32 // per graph, per task: attempts started
	cancelReturned int32
	overflow       int32 // atomic: a task was entered more often than retries+1
	preErr         error
	cancel         context.CancelFunc
	rng            uint64
	sentinels      []error
	attemptErrs    [][]error // [task][attempt-1], used with Spec.AttemptErrs
	inner          *plainWriter
	preSortBad     string
	preExec        []int32
	secondRun      bool
	secondIsCycle  bool
	secondErr      string
	innerRan       bool
	innerErr       error
	out            *plainWriter
}

func (r *runner) log(e Event) int {
	r.mu.Lock()
	r.seq++
	e.Seq = r.seq
	r.events = append(r.events, e)
	s := r.seq
	r.mu.Unlock()
	return s
}

func (r *runner) rand() uint64 {
	r.rng += 0x9E3779B97F4A7C15
	z := r.rng
	z = (z ^ (z >> 30)) * 0xBF58476D1CE4E5B9
	z = (z ^ (z >> 27)) * 0x94D049BB133111EB
	return z ^ (z >> 31)
}

// runInner - a buffered graph run from inside a task of a buffered graph, with the context the task was given: its output
// belongs to its own writer, block by block.
func (r *runner) runInner(ctx context.Context) {
	r.inner = &plainWriter{}
	ig := dag.NewGraph("inner7")
	ig.TickerDuration = 20 * time.Microsecond
	ig.UseColor = false
	if !r.spec.NestedPlain {
		ig.SetOutputBuffer(r.inner)
	} else {
		ig.SetSerial() // the inner tasks share the outer task's buffer: one at a time, ordered by happens-before
	}
	for k := 0; k < 3; k++ {
		k := k
		ig.AddTask(dag.NewTask(fmt.Sprintf("i%d", k), func(c context.Context, _ *getoptions.GetOpt, _ []string) error {
			for j := 1; j <= 2; j++ {
				fmt.Fprintf(dag.Stdout(c), "<g7:t%d:1:%d/2>", k, j)
				runtime.Gosched()
			}
			return nil
		}))
	}
	r.innerErr = ig.Run(ctx, nil, nil)
	r.innerRan = true
}

func (r *runner) outcomeFor(task, attempt int) int {
	p := r.spec.Plan[task]
	if len(p) == 0 {
		return OK
	}
	if attempt-1 < len(p) {
		return p[attempt-1]
	}
	return p[len(p)-1]
}

// taskFn - the harness closure of task i.
func (r *runner) taskFn(i int) getoptions.CommandFn {
	return func(ctx context.Context, opt *getoptions.GetOpt, args []string) error {
		gi := 0
		if v := ctx.Value(graphKey); v != nil {
			gi = v.(int)
		}
		// (1) plain reads of the dependencies' cells and plain read-modify-writes, BEFORE any harness synchronization
		var seen []int
		if r.spec.NGraphs <= 1 {
			for _, d := range r.model.Deps[i] {
				seen = append(seen, r.cells[d])
			}
		}
		if r.spec.Serial {
			r.serialCtr++
		}
		if r.spec.NGraphs > 1 {
			r.taskCounters[i]++
		}
		attempt := int(atomic.AddInt32(&r.attempts[gi][i], 1))
		if attempt > RetriesFor(r.spec, r.model, gi, i)+1 && !r.model.DefErr && !r.model.Cycle && !r.spec.PreFail {
			// more attempts than retries+1: the C13 rule is already broken on the observed prefix, the controller stops the
			// run instead of waiting for the watchdog (a loop that never ends its attempts would cost 20 s per run)
			atomic.StoreInt32(&r.overflow, 1)
		}
		// (2) enter
		r.log(Event{Kind: EvEnter, Graph: gi, Task: i, Attempt: attempt, Seen: seen})
		l := atomic.AddInt32(&r.live, 1)
		for {
			p := atomic.LoadInt32(&r.peak)
			if l <= p || atomic.CompareAndSwapInt32(&r.peak, p, l) {
				break
			}
		}
		if r.spec.Cancel.Kind == "inside-task" && r.spec.Cancel.K == i && attempt == 1 && gi == 0 {
			r.cancel()
			r.log(Event{Kind: EvCancel})
			atomic.StoreInt32(&r.cancelReturned, 1)
		}
		// (3) park / hold
		if r.spec.Policy == "eager" {
			if r.spec.HoldUS > 0 {
				h := int(uint64(i*7919+attempt*104729+gi*31) % uint64(r.spec.HoldUS+1))
				if h > 0 {
					time.Sleep(time.Duration(h) * time.Microsecond)
				} else {
					runtime.Gosched()
				}
			}
		} else {
			pt := &parkedTask{graph: gi, task: i, attempt: attempt, ch: make(chan struct{})}
			r.mu.Lock()
			r.parked = append(r.parked, pt)
			r.mu.Unlock()
			<-pt.ch
		}
		// (4) output
		if !r.spec.Buffer {
			// without buffering the helpers hand out the process's own streams (nothing is written to them here)
			if dag.Stdout(ctx) == nil || dag.Stderr(ctx) == nil {
				r.log(Event{Kind: EvCancel, Graph: -7})
			}
		}
		if r.spec.Buffer && r.spec.QuietMask&(1<<uint(i)) == 0 {
			n := r.spec.Chunks
			if n == 0 {
				n = 3
			}
			for k := 1; k <= n; k++ {
				if k == 2 && r.spec.Nested && i == 0 && attempt == 1 && gi == 0 {
					r.runInner(ctx)
				}
				w := dag.Stdout(ctx)
				if k%2 == 0 {
					w = dag.Stderr(ctx)
				}
				fmt.Fprintf(w, "<g%d:t%d:%d:%d/%d>", gi, i, attempt, k, n)
				if r.spec.Lines {
					w.Write([]byte{'\n'})
				}
				if r.spec.ChunkBytes > 0 {
					filler := bytes.Repeat([]byte{'.'}, r.spec.ChunkBytes)
					if r.spec.Lines {
						for j := 79; j < len(filler); j += 80 {
							filler[j] = '\n'
						}
					}
					w.Write(filler)
				}
				runtime.Gosched()
			}
		}
		out := r.outcomeFor(i, attempt)
		// (5) exit
		atomic.AddInt32(&r.live, -1)
		retries := r.model.Retries[i]
		r.mu.Lock()
		r.seq++
		r.events = append(r.events, Event{Seq: r.seq, Kind: EvExit, Graph: gi, Task: i, Attempt: attempt, Outcome: out})
		r.mu.Unlock()
		_ = retries
		// (6) plain write of the own cell, AFTER the last harness synchronization of this attempt
		if r.spec.NGraphs <= 1 {
			r.cells[i] = attempt*1000 + i + 1
		}
		switch out {
		case ERR:
			if r.spec.AttemptErrs && attempt <= len(r.attemptErrs[i]) {
				return r.attemptErrs[i][attempt-1]
			}
			return r.sentinels[i]
		case SKIPPARENTS:
			if r.spec.WrapSkip {
				return fmt.Errorf("verif: t%d is up to date: %w", i, dag.ErrorSkipParents)
			}
			return dag.ErrorSkipParents
		}
		return nil
	}
}

// preLinks - after the history: dependencies on tasks that completed in the preliminary Run (they count as satisfied).
func (r *runner) preLinks(g *dag.Graph, tasks []*dag.Task) {
	if !r.spec.PreLink || r.spec.PreFail || r.spec.PreTasks == 0 || r.model.DefErr || r.model.Cycle {
		return
	}
	for i := 0; i < r.spec.N; i += 2 {
		if r.model.InGraph[i] {
			g.TaskDependsOn(tasks[i], g.Task(fmt.Sprintf("pre%d", (i/2)%r.spec.PreTasks)))
		}
	}
}

// Build the graphs from the history through the public API only.
func (r *runner) build(gi int, tasks []*dag.Task) *dag.Graph {
	g := dag.NewGraph(r.names[gi])
	g.TickerDuration = 20 * time.Microsecond
	if r.spec.TickerZero {
		g.TickerDuration = 0
	}
	g.UseColor = false
	if r.spec.PreTasks > 0 {
		r.preExec = make([]int32, r.spec.PreTasks)
		for k := 0; k < r.spec.PreTasks; k++ {
			k := k
			fail := r.spec.PreFail && k == 0
			skip := r.spec.PreSkip && r.spec.PreLink && !r.spec.PreFail && k == 0
			g.AddTask(dag.NewTask(fmt.Sprintf("pre%d", k), func(context.Context, *getoptions.GetOpt, []string) error {
				atomic.AddInt32(&r.preExec[k], 1)
				if fail {
					return errors.New("verif: preliminary task failure")
				}
				if skip {
					return dag.ErrorSkipParents
				}
				return nil
			}))
		}
		if r.spec.PreLink && !r.spec.PreFail {
			for k := 1; k < r.spec.PreTasks; k++ {
				g.TaskDependsOn(g.Task(fmt.Sprintf("pre%d", k)), g.Task(fmt.Sprintf("pre%d", k-1)))
			}
		}
		if r.spec.PreMaxPar > 0 {
			g.SetMaxParallel(r.spec.PreMaxPar)
		}
		r.preErr = g.Run(context.Background(), nil, nil)
		if r.spec.PreFail {
			r.preErr = nil // expected to fail
		}
		if r.spec.PreLink && !r.spec.PreFail {
			// the order of a graph that has been run is still dependencies first
			sorted, err := g.DepthFirstSort()
			pos := map[string]int{}
			for i, v := range sorted {
				pos[string(v.ID)] = i
			}
			for k := 1; k < r.spec.PreTasks && err == nil; k++ {
				if pos[fmt.Sprintf("pre%d", k)] < pos[fmt.Sprintf("pre%d", k-1)] {
					r.preSortBad = fmt.Sprintf("DepthFirstSort after a Run lists pre%d before its dependency pre%d", k, k-1)
				}
			}
			if err != nil {
				r.preSortBad = "DepthFirstSort after a Run of an acyclic graph failed: " + err.Error()
			}
		}
	}
	if r.spec.Redefine && gi > 0 {
		for i, t := range tasks {
			if r.model.InGraph[i] {
				g.AddTask(dag.NewTask(string(t.ID), t.Fn)) // same ID and function, an object (and lock) of its own
			}
		}
	}
	for ci, c := range r.spec.Hist {
		if r.spec.SortAt > 0 && ci == r.spec.SortAt {
			_, _ = g.DepthFirstSort() // a caller may sort (or validate) a graph it is still building
		}
		switch c.Op {
		case "add":
			g.AddTask(tasks[c.A])
		case "addnil":
			g.AddTask(nil)
		case "addnofn":
			g.AddTask(&dag.Task{ID: tasks[c.A].ID})
		case "depnil":
			g.TaskDependsOn(tasks[c.A], nil)
		case "retries":
			if r.spec.RetriesOnlyG0 && gi > 0 {
				g.AddTask(tasks[c.A]) // the call adds the task when it is not known yet: keep that part
				break
			}
			g.TaskRetries(tasks[c.A], c.R)
		case "dep":
			var deps []*dag.Task
			for _, b := range c.B {
				deps = append(deps, tasks[b])
			}
			g.TaskDependsOn(tasks[c.A], deps...)
		}
	}
	if r.spec.Redefine && gi > 0 {
		// ... and every ID is defined once more with the shared object, after the edges exist
		for i, t := range tasks {
			if r.model.InGraph[i] {
				g.AddTask(t)
			}
		}
	}
	r.preLinks(g, tasks)
	if r.spec.Serial || r.spec.SerialMask&(1<<uint(gi)) != 0 {
		g.SetSerial()
	}
	if r.spec.MaxPar > 0 {
		if r.spec.LimitFirst > 0 {
			g.SetMaxParallel(r.spec.LimitFirst) // a default that is overridden afterwards
		}
		g.SetMaxParallel(r.spec.MaxPar)
	}
	if r.spec.Buffer {
		if r.spec.ValWriter {
			g.SetOutputBuffer(valWriter{w: r.out, pad: []int{1}})
		} else {
			g.SetOutputBuffer(r.out)
		}
	}
	return g
}

var runCounter uint64

const watchdog = 20 * time.Second

// Execute - one run of the real scheduler under the controller.
func Execute(spec *Spec) *Trace {
	ng := spec.NGraphs
	if ng < 1 {
		ng = 1
	}
	r := &runner{spec: spec, model: BuildModel(spec.N, spec.Hist), rng: spec.PSeed*2654435761 + 12345, out: &plainWriter{fails: spec.WriterFails, dead: spec.WriterFails && spec.WriterDead}}
	r.cells = make([]int, spec.N)
	r.taskCounters = make([]int, spec.N)
	r.attempts = make([][]int32, ng)
	for g := range r.attempts {
		r.attempts[g] = make([]int32, spec.N)
	}
	for i := 0; i < spec.N; i++ {
		switch {
		case spec.CtxErrs && i%3 == 1:
			r.sentinels = append(r.sentinels, fmt.Errorf("verif sentinel error of task t%d (own timeout): %w", i, context.DeadlineExceeded))
		case spec.CtxErrs && i%3 == 2:
			r.sentinels = append(r.sentinels, fmt.Errorf("verif sentinel error of task t%d (own cancel): %w", i, context.Canceled))
		case spec.NestedErrs && i%4 == 3:
			inner := &dag.Errors{Msg: fmt.Sprintf("inner graph of t%d", i), Errors: []error{errors.New("inner task a failed"), fmt.Errorf("Task inner:b error: %w", dag.ErrorTaskSkipped)}}
			if i%8 == 7 {
				inner.Errors = nil // a nested Run that recorded nothing is still a non-nil error value
			}
			r.sentinels = append(r.sentinels, fmt.Errorf("verif sentinel error of task t%d (nested run): %w", i, inner))
		default:
			r.sentinels = append(r.sentinels, fmt.Errorf("verif sentinel error of task t%d", i))
		}
	}
	r.attemptErrs = make([][]error, spec.N)
	for i := range r.attemptErrs {
		for a := 1; a <= 8; a++ {
			r.attemptErrs[i] = append(r.attemptErrs[i], fmt.Errorf("attempt %d failed: %w", a, r.sentinels[i]))
		}
	}
	rec := &lineRecorder{}
	dag.Logger.SetOutput(rec)
	dag.Logger.SetFlags(0)
	if spec.Policy == "eager" || spec.Policy == "all" {
		dag.Logger.SetOutput(io.Discard) // no lock shared between tasks in the race workloads
	}
	id := atomic.AddUint64(&runCounter, 1)
	tasks := make([]*dag.Task, spec.N)
	for i := range tasks {
		if spec.Literal {
			tasks[i] = &dag.Task{ID: dag.ID(TaskName(spec, i)), Fn: r.taskFn(i)}
		} else {
			tasks[i] = dag.NewTask(TaskName(spec, i), r.taskFn(i))
		}
	}
	tr := &Trace{}
	graphs := make([]*dag.Graph, ng)
	hs := make([]*hookState, ng)
	for gi := 0; gi < ng; gi++ {
		r.names = append(r.names, fmt.Sprintf("g%d_%d", id, gi)+TaskSuffix(spec))
	}
	for gi := 0; gi < ng; gi++ {
		use := tasks
		if spec.ViaLookup && gi > 0 {
			// the documented way to get at a task of another graph: the same Task object must come back
			use = append([]*dag.Task{}, tasks...)
			for i := range use {
				if r.model.InGraph[i] {
					use[i] = graphs[0].Task(string(tasks[i].ID))
				}
			}
		}
		graphs[gi] = r.build(gi, use)
		hs[gi] = &hookState{}
		hooks.Store(r.names[gi], hs[gi])
	}
	defer func() {
		for gi, n := range r.names {
			// the entry of an abandoned run stays: its scheduler parks for good at its next hook call instead of polling on
			// in the background for the rest of the worker's life
			if gi < len(hs) && hs[gi] != nil && atomic.LoadInt32(&hs[gi].abandon) == 1 {
				continue
			}
			hooks.Delete(n)
		}
	}()
	// DepthFirstSort (C16)
	if r.preErr != nil {
		tr.Timeout = "preliminary run of the graph failed: " + r.preErr.Error()
	}
	tr.PreSortBad = r.preSortBad
	if ng == 1 && spec.PreTasks == 0 {
		sorted, err := graphs[0].DepthFirstSort()
		if err != nil {
			tr.SortErr = err.Error()
		}
		for _, v := range sorted {
			tr.SortIDs = append(tr.SortIDs, string(v.ID))
		}
	}
	ctx, cancel := context.WithCancel(context.Background())
	r.cancel = cancel
	defer cancel()
	if spec.Cancel.Kind == "before-run" {
		cancel()
		r.log(Event{Kind: EvCancel})
		atomic.StoreInt32(&r.cancelReturned, 1)
	}
	type runRes struct {
		gi  int
		err error
	}
	resCh := make(chan runRes, ng)
	for gi := 0; gi < ng; gi++ {
		var base context.Context = ctx
		if spec.Deadline {
			base = deadlineCtx{ctx}
		}
		gctx := context.WithValue(base, graphKey, gi)
		r.log(Event{Kind: EvRunStart, Graph: gi})
		go func(gi int, g *dag.Graph) {
			err := g.Run(gctx, nil, nil)
			if err != nil && r.model.Cycle && !r.model.DefErr && ng == 1 {
				// a rejected graph is rejected the same way when Run is called again
				err2 := g.Run(gctx, nil, nil)
				r.secondRun = true
				r.secondIsCycle = errors.Is(err2, dag.ErrorGraphHasCycle)
				if err2 != nil {
					r.secondErr = err2.Error()
				}
			}
			r.log(Event{Kind: EvRunReturn, Graph: gi})
			resCh <- runRes{gi, err}
		}(gi, graphs[gi])
	}
	errs := make([]error, ng)
	returned := 0
	collect := func(rr runRes) {
		errs[rr.gi] = rr.err
		returned++
	}

	limit := 1 << 20
	if spec.MaxPar > 0 {
		limit = spec.MaxPar
	}
	if spec.Serial {
		limit = 1
	}
	_ = len(r.model.Tasks)
	releases := 0
	deadline := time.Now().Add(watchdog)
	abandon := func() {
		for _, h := range hs {
			atomic.StoreInt32(&h.abandon, 1)
		}
	}

	if spec.Policy == "eager" {
		// no controller: wait for every Run to return (hook still decides deadlock; bounded progress as in the controlled
		// runs: no task function executing anywhere, every graph that has not returned idles with vertices in progress and
		// an unchanged state for thousands of its own iterations and several seconds)
		type eagerStab struct {
			counts    [4]int
			startTick uint64
			since     time.Time
			init      bool
		}
		stab := make([]eagerStab, ng)
		gone := make([]bool, ng)
		eagerSpinSig := make([][3]uint64, ng)
		eagerSpinStart := make([]uint64, ng)
		for returned < ng {
			select {
			case rr := <-resCh:
				collect(rr)
				gone[rr.gi] = true
			case <-time.After(200 * time.Microsecond):
				if n := atomic.LoadInt64(&r.out.deadCalls); n > 200000 {
					tr.Stalled = fmt.Sprintf("the output writer (which accepts nothing) was called %d times: the flush of an attempt's output does not end", n)
					abandon()
					returned = ng
					break
				}
				// scheduler iterations without any visible effect (logical time, every branch of the loop counts)
				for gi, h := range hs {
					if gone[gi] {
						continue
					}
					loops, ls, sn := atomic.LoadUint64(&h.loops), atomic.LoadUint64(&h.lsnap), atomic.LoadUint64(&h.snap)
					r.mu.Lock()
					sig := [3]uint64{sn, ls, uint64(r.seq)}
					r.mu.Unlock()
					if sig != eagerSpinSig[gi] {
						eagerSpinSig[gi], eagerSpinStart[gi] = sig, loops
					} else if loops-eagerSpinStart[gi] > spinLimit && atomic.LoadInt32(&r.live) == 0 {
						if blocked, gdesc := taskGoroutinesBlocked(); blocked && atomic.LoadInt32(&r.live) == 0 && atomic.LoadUint64(&h.snap) == sn {
							_, lp, lip, lsk, ldn := unpack(ls)
							tr.Stalled = fmt.Sprintf("the scheduler of g%d went through %d iterations without starting, completing or finding nothing to do (pending=%d inprogress=%d skip=%d done=%d), no task function is executing; %s", gi, loops-eagerSpinStart[gi], lp, lip, lsk, ldn, gdesc)
							abandon()
							returned = ng
							break
						}
						eagerSpinStart[gi] = loops
					}
				}
				if tr.Stalled != "" {
					break
				}
				if atomic.LoadInt32(&r.live) == 0 {
					all, desc := true, ""
					for gi, h := range hs {
						if gone[gi] {
							continue
						}
						s := atomic.LoadUint64(&h.snap)
						tick, p, ip, sk, dn := unpack(s)
						c := [4]int{p, ip, sk, dn}
						st := &stab[gi]
						if s == 0 || !st.init || c != st.counts {
							*st = eagerStab{counts: c, startTick: tick, since: time.Now(), init: s != 0}
							all = false
							continue
						}
						if (ip == 0 && !(p == 0 && sk == 0 && dn > 0)) || tick-st.startTick < 2000 || time.Since(st.since) <= 3*time.Second {
							all = false
							continue
						}
						desc += fmt.Sprintf(" g%d: %d iterations (%.1fs) with pending=%d inprogress=%d skip=%d done=%d;", gi, tick-st.startTick, time.Since(st.since).Seconds(), p, ip, sk, dn)
					}
					if all && desc != "" && atomic.LoadInt32(&r.live) == 0 {
						if blocked, gdesc := taskGoroutinesBlocked(); blocked && atomic.LoadInt32(&r.live) == 0 {
							tr.Stalled = "no task function is executing, yet every graph that has not returned idles:" + desc + " " + gdesc
							abandon()
							returned = ng
							break
						}
						for gi := range stab {
							stab[gi].init = false // a task goroutine is only waiting for the CPU: start over
						}
					}
				} else {
					for gi := range stab {
						stab[gi].init = false
					}
				}
				for gi, h := range hs {
					s := atomic.LoadUint64(&h.snap)
					if s == 0 {
						continue
					}
					_, p, ip, sk, dn := unpack(s)
					if ip == 0 && dn < p+ip+sk+dn && ng == 1 {
						tr.Deadlock = true
						tr.DeadlockSnap = fmt.Sprintf("g%d pending=%d inprogress=%d skip=%d done=%d", gi, p, ip, sk, dn)
					}
				}
				if tr.Deadlock || time.Now().After(deadline) || atomic.LoadInt32(&r.overflow) == 1 {
					if !tr.Deadlock {
						tr.Timeout = "eager run did not return within the watchdog"
						if atomic.LoadInt32(&r.overflow) == 1 {
							tr.Timeout = "run stopped by the controller: a task was entered more often than retries+1"
						} else if atomic.LoadInt32(&r.live) == 0 {
							if blocked, desc := allDagGoroutinesBlocked(); blocked && atomic.LoadInt32(&r.live) == 0 {
								tr.Timeout = ""
								tr.Stalled = "no task function is executing and every goroutine of package dag is blocked for good: " + desc
							}
						}
					}
					abandon()
					returned = ng
				}
			}
		}
	} else {
		h := hs[0]
		var lastTick uint64
		var lastCounts [4]int
		stable := 0
		stableSince := time.Now()
		var spinSig [4]uint64
		var spinStart uint64
		spinForce := false
		var idleTick, idleLoops uint64
		idleSince := time.Now()
		heldAfterCancel := false
		cancelSeen := false
	CONTROL:
		for returned < ng {
			select {
			case rr := <-resCh:
				collect(rr)
				continue
			default:
			}
			s := atomic.LoadUint64(&h.snap)
			tick, p, ip, sk, dn := unpack(s)
			forceQ := false
			if spinForce {
				// the scheduler loops without ever finding "nothing to do" while attempts are parked: nothing changes until
				// one of them is released, which makes this a quiescent point like any other (counts from the loop hook)
				spinForce, forceQ = false, true
				_, p, ip, sk, dn = unpack(atomic.LoadUint64(&h.lsnap))
				stable = 1
			}
			// a scheduler that waits for a completion instead of polling reports "nothing to do" once and then stays inside that
			// iteration: no further tick, no further loop iteration. When that has lasted for a while and every launched task is
			// parked, the controller goes on (the point is not used for the work-conservation rule: it was not seen twice).
			blockQ := false
			if ln := atomic.LoadUint64(&h.loops); tick != idleTick || ln != idleLoops {
				idleTick, idleLoops, idleSince = tick, ln, time.Now()
			} else if s != 0 && tick == lastTick && stable == 0 && !forceQ && time.Since(idleSince) > 30*time.Millisecond {
				blockQ = true
			}
			if (s != 0 && tick != lastTick) || forceQ || blockQ {
				if !forceQ && !blockQ {
					tr.IdleTicks++
					if cancelSeen {
						tr.TicksAfterCancel++
					} else if atomic.LoadInt32(&r.cancelReturned) == 1 {
						cancelSeen = true // ticks are counted from the next one on
					}
					c := [4]int{p, ip, sk, dn}
					if c == lastCounts {
						stable++
					} else {
						stable = 0
						stableSince = time.Now()
					}
					lastTick, lastCounts = tick, c
				}
				// bounded progress: every started task function has returned, nothing is parked, the scheduler idles with
				// vertices in progress and its state has not changed for thousands of iterations and several seconds
				// ... or every vertex is done and the scheduler still idles instead of returning
				allDoneIdle := ip == 0 && p == 0 && sk == 0 && dn > 0
				if (ip > 0 || allDoneIdle) && stable >= 2000 && time.Since(stableSince) > 3*time.Second && atomic.LoadInt32(&r.live) == 0 {
					r.mu.Lock()
					np := len(r.parked)
					r.mu.Unlock()
					if np == 0 {
						if blocked, gdesc := taskGoroutinesBlocked(); blocked && atomic.LoadInt32(&r.live) == 0 {
							tr.Stalled = fmt.Sprintf("no task function is executing, yet the scheduler has idled for %d iterations (%.1fs) with pending=%d inprogress=%d skip=%d done=%d; %s", stable, time.Since(stableSince).Seconds(), p, ip, sk, dn, gdesc)
							if allDoneIdle {
								tr.Stalled = "every vertex is done and Run does not return: " + tr.Stalled
							}
							abandon()
							break CONTROL
						}
						stable = 0 // a task goroutine is only waiting for the CPU: start over
						stableSince = time.Now()
					}
				}
				if ip == 0 && dn < p+ip+sk+dn {
					// nothing ready, nothing running, not everything done: a fixpoint of the scheduler loop
					tr.Deadlock = true
					tr.DeadlockSnap = fmt.Sprintf("pending=%d inprogress=%d skip=%d done=%d (tick %d)", p, ip, sk, dn, tick)
					abandon()
					break CONTROL
				}
				r.mu.Lock()
				nParked := len(r.parked)
				fin := r.finalExitsLocked()
				r.mu.Unlock()
				want := ip
				if want > limit {
					want = limit
				}
				if !forceQ && stable >= 2000 && nParked > 0 && nParked < want && int(atomic.LoadInt32(&r.live)) == nParked {
					// work conservation: more vertices are in progress than task functions were entered, the configured limit
					// has room, the scheduler only idles and the goroutines that did not get to their function are blocked
					if blocked, gdesc := taskGoroutinesBlocked(); blocked && int(atomic.LoadInt32(&r.live)) == nParked {
						lim := "none"
						if limit < 1<<20 {
							lim = strconv.Itoa(limit)
						}
						tr.Stalled = fmt.Sprintf("only %d of %d launched tasks were let into their function although capacity remains (limit %s) and the scheduler has idled for %d iterations; %s", nParked, ip, lim, stable, gdesc)
						abandon()
						break CONTROL
					}
					stable = 1
				}
				if (stable >= 1 || blockQ) && nParked > 0 && nParked >= want && dn >= fin {
					// quiescent point
					if blockQ {
						tr.BlockedQuiescent++
					}
					r.mu.Lock()
					sort.Slice(r.parked, func(a, b int) bool {
						if r.parked[a].task != r.parked[b].task {
							return r.parked[a].task < r.parked[b].task
						}
						return r.parked[a].attempt < r.parked[b].attempt
					})
					q := QPoint{Seq: r.seq, InProg: ip, Done: dn, Pending: p, Skip: sk, Fresh: dn == fin && !blockQ}
					for _, pt := range r.parked {
						q.Parked = append(q.Parked, pt.task)
					}
					r.mu.Unlock()
					tr.Quiescent = append(tr.Quiescent, q)
					// choose
					var chosen []int
					switch spec.Policy {
					case "dfs":
						c := 0
						if len(tr.Choices) < len(spec.Prefix) {
							c = spec.Prefix[len(tr.Choices)]
						}
						if c >= nParked {
							c = nParked - 1
						}
						tr.Choices = append(tr.Choices, [2]int{c, nParked})
						chosen = []int{c}
					case "rand":
						c := int(r.rand() % uint64(nParked))
						tr.Choices = append(tr.Choices, [2]int{c, nParked})
						chosen = []int{c}
					default: // all
						for i := 0; i < nParked; i++ {
							chosen = append(chosen, i)
						}
						tr.Choices = append(tr.Choices, [2]int{-1, nParked})
					}
					if spec.HoldAfterCancelMS > 0 && tr.CancelSeq > 0 && !heldAfterCancel {
						// in-flight tasks may take as long as they like after a cancellation: Run waits for them
						heldAfterCancel = true
						time.Sleep(time.Duration(spec.HoldAfterCancelMS) * time.Millisecond)
						select {
						case rr := <-resCh:
							collect(rr)
							continue
						default:
						}
						deadline = time.Now().Add(watchdog)
					}
					r.mu.Lock()
					var rel []*parkedTask
					keep := r.parked[:0:0]
					for i, pt := range r.parked {
						isC := false
						for _, c := range chosen {
							if c == i {
								isC = true
							}
						}
						if isC {
							rel = append(rel, pt)
						} else {
							keep = append(keep, pt)
						}
					}
					r.parked = keep
					r.mu.Unlock()
					for _, pt := range rel {
						close(pt.ch)
						releases++
					}
					// wait until the released attempts have logged their exit
					for _, pt := range rel {
						for !r.exited(pt) {
							if time.Now().After(deadline) {
								tr.Timeout = "released task did not exit"
								abandon()
								break CONTROL
							}
							runtime.Gosched()
						}
					}
					if spec.Cancel.Kind == "after-release" && releases >= spec.Cancel.K && tr.CancelSeq == 0 {
						cancel()
						tr.CancelSeq = r.log(Event{Kind: EvCancel})
						atomic.StoreInt32(&r.cancelReturned, 1)
					}
					stable = 0
					deadline = time.Now().Add(watchdog)
					continue
				}
			}
			if n := atomic.LoadInt64(&r.out.deadCalls); n > 200000 {
				tr.Stalled = fmt.Sprintf("the output writer (which accepts nothing) was called %d times: the flush of an attempt's output does not end", n)
				abandon()
				break
			}
			if atomic.LoadInt32(&r.overflow) == 1 {
				tr.Timeout = "run stopped by the controller: a task was entered more often than retries+1"
				abandon()
				break
			}
			// scheduler iterations without any visible effect (logical time, every branch of the loop counts)
			{
				loops, ls := atomic.LoadUint64(&h.loops), atomic.LoadUint64(&h.lsnap)
				r.mu.Lock()
				sig := [4]uint64{tick, ls, uint64(r.seq), uint64(len(r.parked))}
				r.mu.Unlock()
				if sig != spinSig {
					spinSig, spinStart = sig, loops
				} else if loops-spinStart > spinLimit && atomic.LoadInt32(&r.live) == 0 && sig[3] == 0 {
					if blocked, gdesc := taskGoroutinesBlocked(); blocked && atomic.LoadInt32(&r.live) == 0 && atomic.LoadUint64(&h.snap)>>40 == tick {
						_, lp, lip, lsk, ldn := unpack(ls)
						tr.Stalled = fmt.Sprintf("the scheduler went through %d iterations without starting, completing or finding nothing to do (pending=%d inprogress=%d skip=%d done=%d), no task function is executing; %s", loops-spinStart, lp, lip, lsk, ldn, gdesc)
						abandon()
						break
					}
					spinStart = loops
				} else if loops-spinStart > spinLimit && sig[3] > 0 {
					spinForce = true
					spinStart = loops
				}
			}
			if time.Now().After(deadline) {
				tr.Timeout = fmt.Sprintf("no quiescent point and no return within the watchdog (last snapshot pending=%d inprogress=%d skip=%d done=%d)", p, ip, sk, dn)
				r.mu.Lock()
				np := len(r.parked)
				r.mu.Unlock()
				if np == 0 && atomic.LoadInt32(&r.live) == 0 {
					if blocked, desc := allDagGoroutinesBlocked(); blocked && atomic.LoadInt32(&r.live) == 0 {
						tr.Timeout = ""
						tr.Stalled = "no task function is executing, nothing is parked and every goroutine of package dag is blocked for good: " + desc
					}
				}
				abandon()
				break
			}
			if s == 0 || tick == lastTick {
				time.Sleep(5 * time.Microsecond)
			}
		}
	}
	// Run returned (or verdict taken): anything still parked is released with its scripted outcome.
	r.mu.Lock()
	left := r.parked
	r.parked = nil
	r.mu.Unlock()
	if !tr.Deadlock && tr.Timeout == "" && tr.Stalled == "" {
		tr.ParkedAtReturn = len(left)
	}
	for _, pt := range left {
		close(pt.ch)
	}
	// late events (after return) need a moment to land when something was still running
	if len(left) > 0 {
		time.Sleep(2 * time.Millisecond)
	}
	r.mu.Lock()
	tr.Events = append([]Event{}, r.events...)
	r.mu.Unlock()
	for _, e := range tr.Events {
		if e.Kind == EvCancel && tr.CancelSeq == 0 {
			tr.CancelSeq = e.Seq
		}
	}
	tr.Peak = int(atomic.LoadInt32(&r.peak))
	tr.RunErr = make([]string, ng)
	tr.ErrIsCycle = make([]bool, ng)
	tr.ErrAsErrors = make([]bool, ng)
	tr.ErrEntries = make([][]ErrEntry, ng)
	for gi, err := range errs {
		if err == nil {
			continue
		}
		tr.RunErr[gi] = err.Error()
		tr.ErrIsCycle[gi] = errors.Is(err, dag.ErrorGraphHasCycle)
		var de *dag.Errors
		if errors.As(err, &de) {
			tr.ErrAsErrors[gi] = true
			for _, e := range de.Errors {
				ee := ErrEntry{Text: e.Error(), IsSkipped: errors.Is(e, dag.ErrorTaskSkipped), IsTask: -1}
				for i, s := range r.sentinels {
					if errors.Is(e, s) {
						ee.IsTask = i
						for a, ae := range r.attemptErrs[i] {
							if errors.Is(e, ae) {
								ee.Attempt = a + 1
							}
						}
					}
				}
				tr.ErrEntries[gi] = append(tr.ErrEntries[gi], ee)
			}
		}
	}
	rec.mu.Lock()
	tr.LogLines = append([]string{}, rec.lines...)
	rec.mu.Unlock()
	if returned >= ng && !tr.Deadlock && tr.Timeout == "" && tr.Stalled == "" {
		// every Run returned: its goroutines are gone, plain state can be read
		tr.Output = string(r.out.buf)
		tr.OutputRead = true
		for i := range r.preExec {
			tr.PreExec = append(tr.PreExec, int(atomic.LoadInt32(&r.preExec[i])))
		}
		tr.SecondRun, tr.SecondIsCycle, tr.SecondErr = r.secondRun, r.secondIsCycle, r.secondErr
		if r.innerRan {
			tr.InnerRan = true
			tr.InnerOutput = string(r.inner.buf)
			if r.innerErr != nil {
				tr.InnerErr = r.innerErr.Error()
			}
		}
		tr.OutputWrites = r.out.writes
		tr.SerialCounter = r.serialCtr
		tr.TaskCounters = append([]int{}, r.taskCounters...)
	}
	return tr
}

func (r *runner) exited(pt *parkedTask) bool {
	r.mu.Lock()
	defer r.mu.Unlock()
	for i := len(r.events) - 1; i >= 0; i-- {
		e := r.events[i]
		if e.Kind == EvExit && e.Graph == pt.graph && e.Task == pt.task && e.Attempt == pt.attempt {
			return true
		}
	}
	return false
}

// finalExitsLocked - number of exits after which the library's task goroutine reports to the scheduler
// (an ok exit, or a non-ok exit of the last attempt it will make). Uses the observed attempts only as a lower bound:
// counts ok exits plus non-ok exits that are not followed by a further enter of the same task.
func (r *runner) finalExitsLocked() int {
	type key struct{ g, t int }
	last := map[key]Event{}
	for _, e := range r.events {
		if e.Kind == EvEnter || e.Kind == EvExit {
			last[key{e.Graph, e.Task}] = e
		}
	}
	n := 0
	for k, e := range last {
		if e.Kind != EvExit {
			continue
		}
		if e.Outcome == OK || e.Attempt > r.model.Retries[k.t] {
			n++
		}
	}
	return n
}

var _ = bytes.NewBuffer

var goroutineHeader = regexp.MustCompile(`^goroutine (\d+) \[([^\],]+)`)

// allDagGoroutinesBlocked - goroutine dump taken when a run neither returned nor reached a quiescent point: true when at least
// one goroutine is inside package dag and every such goroutine is blocked on a channel operation, a mutex or an empty select
// (none running, runnable, sleeping or in a syscall), in two dumps taken 300 ms apart with the same goroutines in the same
// states. With no task function executing and nothing parked by the controller nothing can wake them: the context is the
// harness's own and is not cancelled any more, timers belong to sleeping goroutines only.
func allDagGoroutinesBlocked() (bool, string) {
	snap := func() (map[string]string, bool) {
		buf := make([]byte, 4<<20)
		buf = buf[:runtime.Stack(buf, true)]
		states := map[string]string{}
		allBlocked := true
		for _, g := range strings.Split(string(buf), "\n\n") {
			if !strings.Contains(g, "go-getoptions/dag.") {
				continue
			}
			m := goroutineHeader.FindStringSubmatch(g)
			if m == nil {
				continue
			}
			states[m[1]] = m[2]
			switch m[2] {
			case "chan send", "chan receive", "select (no cases)", "semacquire", "sync.Mutex.Lock", "sync.RWMutex.Lock", "sync.RWMutex.RLock", "sync.Cond.Wait", "chan send (nil chan)", "chan receive (nil chan)":
			default:
				allBlocked = false
			}
		}
		return states, allBlocked && len(states) > 0
	}
	a, okA := snap()
	if !okA {
		return false, ""
	}
	time.Sleep(300 * time.Millisecond)
	b, okB := snap()
	if !okB || len(a) != len(b) {
		return false, ""
	}
	var desc []string
	for id, st := range a {
		if b[id] != st {
			return false, ""
		}
		desc = append(desc, "goroutine "+id+" ["+st+"]")
	}
	sort.Strings(desc)
	return true, strings.Join(desc, ", ")
}

// taskGoroutinesBlocked - goroutine dump used before a "no progress" verdict: true when every goroutine started by Graph.Run
// (frames dag.(*Graph).Run.func...) is blocked on a channel operation or a lock - or no such goroutine exists - in two dumps
// taken 200 ms apart. A task goroutine that is merely waiting for the CPU on a loaded machine shows as runnable/running and
// vetoes the verdict; schedulers (idling, sleeping on their ticker) are not looked at: they only poll.
func taskGoroutinesBlocked() (bool, string) {
	snap := func() (map[string]string, bool) {
		buf := make([]byte, 4<<20)
		buf = buf[:runtime.Stack(buf, true)]
		states := map[string]string{}
		for _, g := range strings.Split(string(buf), "\n\n") {
			if !strings.Contains(g, "go-getoptions/dag.(*Graph).Run.func") {
				continue
			}
			m := goroutineHeader.FindStringSubmatch(g)
			if m == nil {
				continue
			}
			states[m[1]] = m[2]
			switch m[2] {
			case "chan send", "chan receive", "select (no cases)", "semacquire", "sync.Mutex.Lock", "sync.RWMutex.Lock", "sync.RWMutex.RLock", "sync.Cond.Wait", "chan send (nil chan)", "chan receive (nil chan)":
			default:
				return states, false
			}
		}
		return states, true
	}
	a, okA := snap()
	if !okA {
		return false, ""
	}
	time.Sleep(200 * time.Millisecond)
	b, okB := snap()
	if !okB || len(a) != len(b) {
		return false, ""
	}
	var desc []string
	for id, st := range a {
		if b[id] != st {
			return false, ""
		}
		desc = append(desc, "goroutine "+id+" ["+st+"]")
	}
	sort.Strings(desc)
	if len(desc) == 0 {
		return true, "no task goroutine exists"
	}
	return true, "task goroutines: " + strings.Join(desc, ", ")
}

// TaskName - ID of task i. With Colon the first four IDs are chosen so that two different edges (a task depends on tasks with
// a smaller index) give the same text when written as "<id>:<dependency id>": ta -> tb:tc (1 -> 0) and ta:tb -> tc (3 -> 2).
func TaskName(spec *Spec, i int) string {
	if spec.Colon && i < 4 {
		return []string{"tb:tc", "ta", "tc", "ta:tb"}[i] + TaskSuffix(spec)
	}
	return fmt.Sprintf("t%d", i) + TaskSuffix(spec)
}

// RetriesFor - retries configured for task t in graph gi.
func RetriesFor(spec *Spec, m *Model, gi, t int) int {
	if spec.RetriesOnlyG0 && gi > 0 {
		return 0
	}
	return m.Retries[t]
}

// TaskSuffix - appended to graph names and task IDs (a percent sign must survive every message the library formats).
func TaskSuffix(spec *Spec) string {
	sfx := ""
	if spec.Percent {
		sfx = "%d50%"
	}
	if spec.Space {
		sfx += " "
	}
	return sfx
}
