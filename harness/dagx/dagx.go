// Package dagx - DAG-side harness.
package dagx
