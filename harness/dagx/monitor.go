package dagx

import (
	"fmt"
	"regexp"
	"sort"
	"strconv"
	"strings"
)

// Finding - a monitor verdict on one run.
type Finding struct {
	Prop string `json:"prop"`
	Msg  string `json:"msg"`
}

type taskHist struct {
	enters []Event
	exits  []Event
}

func (tr *Trace) perTask(graph int) map[int]*taskHist {
	m := map[int]*taskHist{}
	for _, e := range tr.Events {
		if e.Graph != graph {
			continue
		}
		if e.Kind != EvEnter && e.Kind != EvExit {
			continue
		}
		h := m[e.Task]
		if h == nil {
			h = &taskHist{}
			m[e.Task] = h
		}
		if e.Kind == EvEnter {
			h.enters = append(h.enters, e)
		} else {
			h.exits = append(h.exits, e)
		}
	}
	return m
}

// FinalOutcome - outcome of the last observed attempt of a task (-1 = never entered, -2 = entered, no exit logged).
func finalOutcome(h *taskHist) int {
	if h == nil || len(h.enters) == 0 {
		return -1
	}
	if len(h.exits) < len(h.enters) {
		return -2
	}
	return h.exits[len(h.exits)-1].Outcome
}

var chunkRe = regexp.MustCompile(`<g(\d+):t(\d+):(\d+):(\d+)/(\d+)>`)

// Monitor - all offline checkers over one run. The statement each clause comes from is named by Prop.
func Monitor(spec *Spec, tr *Trace) []Finding {
	var f []Finding
	add := func(p, format string, a ...interface{}) { f = append(f, Finding{p, fmt.Sprintf(format, a...)}) }
	m := BuildModel(spec.N, spec.Hist)
	ng := spec.NGraphs
	if ng < 1 {
		ng = 1
	}

	// ---- termination (C16) --------------------------------------------------------------------
	if tr.Deadlock {
		add("C16", "Run can never return: idle tick with nothing ready, nothing in progress and unfinished vertices (%s) after history %v", tr.DeadlockSnap, spec.Hist)
		return f
	}
	if tr.Stalled != "" {
		add("C16", "Run makes no progress although every started task has returned: %s (history %v, plan %v)", tr.Stalled, spec.Hist, spec.Plan)
		return f
	}
	if tr.Timeout != "" {
		// no verdict about termination or reporting (inconclusive, decided by the caller); the prefix-closed safety rules
		// of C13 hold or fail on the part of the run that was observed whatever happens later
		if !(m.DefErr || m.Cycle || spec.PreFail) {
			for gi := 0; gi < ng; gi++ {
				hist := tr.perTask(gi)
				for _, t := range m.Tasks {
					h := hist[t]
					if h == nil {
						continue
					}
					if R := RetriesFor(spec, m, gi, t); len(h.enters) > R+1 {
						add("C13", "task t%d entered %d times with %d retries configured (run cut off by the watchdog: %s)", t, len(h.enters), R, tr.Timeout)
					}
					okSeq := map[int]int{}
					for _, d := range m.Deps[t] {
						if hd := hist[d]; hd != nil {
							for _, e := range hd.exits {
								if e.Outcome == OK {
									okSeq[d] = e.Seq
								}
							}
						}
					}
					for i, en := range h.enters {
						if i > 0 && i-1 < len(h.exits) && h.exits[i-1].Outcome == OK {
							add("C13", "task t%d entered again after returning nil (run cut off by the watchdog)", t)
						}
						for _, d := range m.Deps[t] {
							if s, ok := okSeq[d]; !ok || s > en.Seq {
								add("C13", "task t%d entered (%v) before its dependency t%d returned nil (history %v; run cut off by the watchdog)", t, en, d, spec.Hist)
							}
						}
					}
				}
			}
		}
		return f
	}
	if tr.ParkedAtReturn > 0 {
		add("C16", "Run returned while %d task function(s) were still executing", tr.ParkedAtReturn)
	}
	runReturn := map[int]int{}
	for _, e := range tr.Events {
		if e.Kind == EvRunReturn {
			runReturn[e.Graph] = e.Seq
		}
	}
	for _, e := range tr.Events {
		if e.Kind == EvEnter {
			if rs, ok := runReturn[e.Graph]; ok && e.Seq > rs {
				add("C16", "task t%d entered after Run returned (%v)", e.Task, e)
			}
		}
	}

	for gi := 0; gi < ng; gi++ {
		hist := tr.perTask(gi)
		entered := func(t int) bool { return hist[t] != nil && len(hist[t].enters) > 0 }

		// ---- definition errors / cycles (C16) -------------------------------------------------
		if spec.PreFail && !(m.DefErr || m.Cycle) {
			// the graph has recorded a failure in an earlier Run: it refuses to run again and starts nothing
			if tr.RunErr[gi] == "" {
				add("C14", "an earlier Run of this graph recorded a task failure, tasks were added, and the next Run returned nil")
			}
			for t := range hist {
				if entered(t) {
					add("C13", "task t%d was started by a Run of a graph whose earlier Run had failed (its recorded errors were forgotten)", t)
				}
			}
			continue
		}
		if m.DefErr || m.Cycle {
			if tr.RunErr[gi] == "" {
				add("C16", "graph with %s was accepted: Run returned nil", map[bool]string{true: "a dependency cycle", false: "a definition error"}[m.Cycle])
			}
			for t := range hist {
				if entered(t) {
					add("C16", "graph with a cycle/definition error: task t%d was started", t)
				}
			}
			if m.Cycle && !m.DefErr && tr.SecondRun && !tr.SecondIsCycle && gi == 0 {
				add("C16", "cyclic graph with an otherwise error-free definition, Run called a second time: error %q is not ErrorGraphHasCycle", tr.SecondErr)
			}
			if m.Cycle && !m.DefErr && tr.RunErr[gi] != "" && !tr.ErrIsCycle[gi] {
				add("C16", "cyclic graph with an otherwise error-free definition: error %q is not ErrorGraphHasCycle", tr.RunErr[gi])
			}
			continue
		}

		// ---- precedence, attempts (C13) -------------------------------------------------------
		okExitSeq := map[int]int{} // task -> seq of its ok exit
		for t, h := range hist {
			for _, e := range h.exits {
				if e.Outcome == OK {
					okExitSeq[t] = e.Seq
				}
			}
		}
		for _, t := range m.Tasks {
			h := hist[t]
			if h == nil {
				continue
			}
			R := RetriesFor(spec, m, gi, t)
			if len(h.enters) > R+1 {
				add("C13", "task t%d entered %d times with %d retries configured", t, len(h.enters), R)
			}
			for i, en := range h.enters {
				if en.Attempt != i+1 {
					add("C13", "task t%d attempts overlap or are misnumbered: %v", t, h.enters)
					break
				}
				// strictly one after another, stopping at the first nil
				if i > 0 {
					if i-1 >= len(h.exits) || h.exits[i-1].Seq > en.Seq {
						add("C13", "task t%d attempt %d entered before attempt %d returned", t, i+1, i)
					} else if h.exits[i-1].Outcome == OK {
						add("C13", "task t%d entered again after returning nil", t)
					}
				}
				for di, d := range m.Deps[t] {
					s, ok := okExitSeq[d]
					if !ok || s > en.Seq {
						add("C13", "task t%d entered (%v) before its dependency t%d returned nil (history %v)", t, en, d, spec.Hist)
						continue
					}
					// visibility of the dependency's last plain write
					if di < len(en.Seen) {
						want := 0
						for _, x := range hist[d].exits {
							if x.Seq <= s {
								want = x.Attempt*1000 + d + 1
							}
						}
						if en.Seen[di] != want {
							add("C13", "task t%d read %d from the plain cell of its dependency t%d, expected %d (write not visible)", t, en.Seen[di], d, want)
						}
					}
				}
			}
			// exact retry count where the history defines it unambiguously
			if m.RetriesExact && len(h.exits) == len(h.enters) && len(h.enters) > 0 {
				last := h.exits[len(h.exits)-1]
				if last.Outcome != OK && len(h.enters) < R+1 {
					add("C13", "task t%d failed attempt %d and was not retried although %d retries are configured", t, len(h.enters), R)
				}
			}
		}

		// ---- outcomes and reporting (C14) -----------------------------------------------------
		cancelled := tr.CancelSeq > 0
		var failed, skipParents []int
		neverEntered := map[int]bool{}
		for _, t := range m.Tasks {
			switch finalOutcome(hist[t]) {
			case -1:
				neverEntered[t] = true
			case ERR:
				failed = append(failed, t)
			case SKIPPARENTS:
				skipParents = append(skipParents, t)
			}
		}
		spDependents := map[int]bool{}
		for _, s := range skipParents {
			for d := range m.TransDependents(s) {
				spDependents[d] = true
			}
		}
		for _, ft := range failed {
			for d := range m.TransDependents(ft) {
				if entered(d) {
					add("C14", "task t%d was started although it depends on t%d whose final attempt failed", d, ft)
				}
			}
			found := false
			for _, ee := range tr.ErrEntries[gi] {
				if ee.IsTask == ft {
					found = true
					if spec.AttemptErrs && hist[ft] != nil && ee.Attempt != len(hist[ft].enters) {
						add("C14", "task t%d failed in its final attempt %d, but the reported entry wraps the error returned by attempt %d (%q)", ft, len(hist[ft].enters), ee.Attempt, ee.Text)
					}
				}
			}
			if !tr.ErrAsErrors[gi] {
				add("C14", "task t%d failed but Run returned %q which is not a *dag.Errors", ft, tr.RunErr[gi])
			} else if !found {
				add("C14", "task t%d failed but no entry of the returned *Errors wraps its error (entries %v)", ft, entryTexts(tr.ErrEntries[gi]))
			}
		}
		for _, s := range skipParents {
			for d := range m.TransDependents(s) {
				if entered(d) {
					add("C14", "task t%d was started although it depends on t%d which returned ErrorSkipParents", d, s)
				}
			}
		}
		// skipped entries
		if tr.ErrAsErrors[gi] || tr.RunErr[gi] == "" {
			reported := map[int]int{}
			for _, ee := range tr.ErrEntries[gi] {
				if !ee.IsSkipped {
					continue
				}
				for _, t := range m.Tasks {
					if strings.Contains(ee.Text, ":"+TaskName(spec, t)+" error:") {
						// with colon IDs one ID can be the tail of another (`t9` of `t1:t9`): the longest ID that fits names the task
						longer := false
						for _, u := range m.Tasks {
							if u != t && len(TaskName(spec, u)) > len(TaskName(spec, t)) && strings.HasSuffix(TaskName(spec, u), ":"+TaskName(spec, t)) && strings.Contains(ee.Text, ":"+TaskName(spec, u)+" error:") {
								longer = true
							}
						}
						if !longer {
							reported[t]++
						}
					}
				}
			}
			nSkippedEntries := 0
			for _, ee := range tr.ErrEntries[gi] {
				if ee.IsSkipped {
					nSkippedEntries++
				}
			}
			if nSkippedEntries > 0 && len(reported) == 0 {
				// the entries do not name the task in the form this monitor knows: compare counts instead of identities
				need := 0
				for t := range neverEntered {
					if !spDependents[t] {
						need++
					}
				}
				if len(failed) > 0 && nSkippedEntries < need {
					add("C14", "%d task(s) were never started (not counting dependents of ErrorSkipParents tasks) but only %d ErrorTaskSkipped entries are reported", need, nSkippedEntries)
				}
				if nSkippedEntries > len(neverEntered) {
					add("C14", "%d ErrorTaskSkipped entries for %d tasks that were never started", nSkippedEntries, len(neverEntered))
				}
			} else if len(failed) > 0 {
				for t := range neverEntered {
					if spDependents[t] {
						continue // both clauses apply: accepted either way
					}
					if reported[t] == 0 && tr.RunErr[gi] != "" {
						add("C14", "task t%d was never started but no ErrorTaskSkipped entry reports it (entries %v)", t, entryTexts(tr.ErrEntries[gi]))
					}
				}
			}
			for t, n := range reported {
				if !neverEntered[t] {
					add("C14", "task t%d is reported as skipped but it was started", t)
				}
				if n > 1 {
					add("C14", "task t%d is reported as skipped %d times", t, n)
				}
				if spDependents[t] {
					// "its transitive dependents are not started, are not reported": the specific clause wins over the
					// general one also when a failure or a cancellation happened elsewhere in the same run
					add("C14", "task t%d was skipped through ErrorSkipParents (it depends on a task that returned it) but is reported as skipped", t)
				}
			}
		}
		if !cancelled {
			allFine := len(failed) == 0
			// every task either ran successfully or was skipped through ErrorSkipParents
			for _, t := range m.Tasks {
				fo := finalOutcome(hist[t])
				if fo == -1 && !spDependents[t] && len(failed) == 0 {
					add("C14", "task t%d was never started although nothing failed, nothing was cancelled and it is not behind ErrorSkipParents", t)
					allFine = false
				}
				if fo == -2 {
					allFine = false
				}
			}
			if allFine && tr.RunErr[gi] != "" {
				add("C14", "Run returned %q although every task succeeded or was skipped through ErrorSkipParents", tr.RunErr[gi])
			}
			if !allFine && len(failed) > 0 && tr.RunErr[gi] == "" {
				add("C14", "Run returned nil although task(s) %v failed", failed)
			}
		} else {
			// cancellation: a task whose last dependency exited after cancel() returned must never be entered
			if spec.Cancel.Kind == "before-run" {
				for t := range hist {
					if entered(t) {
						add("C14", "context cancelled before Run: task t%d was started", t)
					}
				}
				if tr.RunErr[gi] == "" && len(m.Tasks) > 0 {
					add("C14", "context cancelled before Run on a non-empty graph: Run returned nil")
				}
			}
			for _, t := range m.Tasks {
				if !entered(t) || len(m.Deps[t]) == 0 {
					continue
				}
				lastDep := 0
				for _, d := range m.Deps[t] {
					if s := okExitSeq[d]; s > lastDep {
						lastDep = s
					}
				}
				if lastDep > tr.CancelSeq {
					add("C14", "task t%d was launched after cancellation: its last dependency returned at seq %d, cancel() had returned at seq %d", t, lastDep, tr.CancelSeq)
				}
			}
			sawLine := false
			for _, l := range tr.LogLines {
				if strings.Contains(l, "Cancellation received") {
					sawLine = true
				}
			}
			if sawLine && tr.RunErr[gi] == "" {
				add("C14", "cancellation was observed (logged) but Run returned nil")
			}
			if tr.TicksAfterCancel >= 3 && tr.RunErr[gi] == "" && gi == 0 {
				add("C14", "cancel() had returned and the scheduler went through %d more idle iterations before Run returned, yet Run returned nil (cancellation during the last in-flight tasks is not reported)", tr.TicksAfterCancel)
			}
			for _, e := range tr.Events {
				if e.Kind == EvEnter && e.Seq > tr.CancelSeq {
					tr.LateEntriesAfterCancel++
				}
			}
		}

		// ---- DepthFirstSort (C16) -------------------------------------------------------------
		if tr.PreSortBad != "" && gi == 0 {
			add("C16", "%s", tr.PreSortBad)
		}
		if gi == 0 && spec.PreLink && !spec.PreFail {
			for k, n := range tr.PreExec {
				if n > 1 {
					add("C13", "task pre%d of the earlier Run was entered %d times over the two Runs of the graph", k, n)
				}
				if spec.PreSkip && k > 0 && n > 0 {
					add("C13", "task pre%d was entered although its dependency pre%d returned ErrorSkipParents in the earlier Run of the graph", k, k-1)
				}
			}
		}
		if ng == 1 && spec.PreTasks == 0 {
			if tr.SortErr != "" {
				add("C16", "DepthFirstSort of an acyclic graph failed: %s", tr.SortErr)
			} else {
				pos := map[string]int{}
				for i, id := range tr.SortIDs {
					if _, dup := pos[id]; dup {
						add("C16", "DepthFirstSort lists %s twice: %v", id, tr.SortIDs)
					}
					pos[id] = i
				}
				if len(pos) != len(m.Tasks) {
					add("C16", "DepthFirstSort returned %d distinct vertices, graph has %d: %v", len(pos), len(m.Tasks), tr.SortIDs)
				}
				for _, t := range m.Tasks {
					for _, d := range m.Deps[t] {
						pt, ok1 := pos[TaskName(spec, t)]
						pd, ok2 := pos[TaskName(spec, d)]
						if ok1 && ok2 && pd > pt {
							add("C16", "DepthFirstSort puts t%d before its dependency t%d: %v", t, d, tr.SortIDs)
						}
					}
				}
			}
		}

		// ---- work conservation at fresh quiescent points (C16) --------------------------------
		if gi == 0 && spec.Policy != "eager" {
			limit := 1 << 20
			if spec.MaxPar > 0 {
				limit = spec.MaxPar
			}
			if spec.Serial {
				limit = 1
			}
			for _, q := range tr.Quiescent {
				if !q.Fresh {
					continue
				}
				// state of the world at q.Seq
				clean := true
				okDone := map[int]bool{}
				for _, e := range tr.Events {
					if e.Seq > q.Seq {
						break
					}
					if e.Kind == EvCancel {
						clean = false
					}
					if e.Kind == EvExit {
						if e.Outcome == OK {
							okDone[e.Task] = true
						} else {
							clean = false // a failure (or skip-parents) has occurred: the clause no longer applies
						}
					}
				}
				if !clean {
					continue
				}
				ready := 0
				for _, t := range m.Tasks {
					if okDone[t] {
						continue
					}
					all := true
					for _, d := range m.Deps[t] {
						if !okDone[d] {
							all = false
						}
					}
					if all {
						ready++
					}
				}
				want := ready
				if want > limit {
					want = limit
				}
				if len(q.Parked) < want {
					add("C16", "at a quiescent point %d task(s) with all dependencies completed exist, capacity is %d, but only %d are running (parked %v)", ready, limit, len(q.Parked), q.Parked)
				}
			}
		}
	}

	// ---- concurrency bound (C15) ---------------------------------------------------------------
	if ng == 1 {
		limit := 1 << 20
		if spec.MaxPar > 0 {
			limit = spec.MaxPar
		}
		if spec.Serial {
			limit = 1
		}
		// recomputed from the event log (enter/exit are sequence-numbered under one lock)
		live, peak := 0, 0
		for _, e := range tr.Events {
			switch e.Kind {
			case EvEnter:
				live++
				if live > peak {
					peak = live
				}
			case EvExit:
				live--
			}
		}
		if peak > limit {
			add("C15", "%d task functions were executing at the same time, limit is %d", peak, limit)
		}
		if tr.Peak > limit {
			add("C15", "live counter peaked at %d, limit is %d", tr.Peak, limit)
		}
		if spec.Serial && tr.RunErr[0] == "" {
			n := 0
			for _, e := range tr.Events {
				if e.Kind == EvEnter {
					n++
				}
			}
			if tr.SerialCounter != n {
				add("C15", "serial mode: unsynchronized shared counter is %d after %d task executions (lost update)", tr.SerialCounter, n)
			}
		}
	}
	if ng > 1 {
		// the bound holds per graph (each Run has its own limit), also while a shared Task makes a graph wait
		for gi := 0; gi < ng; gi++ {
			limit := 1 << 20
			if spec.MaxPar > 0 {
				limit = spec.MaxPar
			}
			if spec.Serial || spec.SerialMask&(1<<uint(gi)) != 0 {
				limit = 1
			}
			live, peak := 0, 0
			for _, e := range tr.Events {
				if e.Graph != gi {
					continue
				}
				switch e.Kind {
				case EvEnter:
					live++
					if live > peak {
						peak = live
					}
				case EvExit:
					live--
				}
			}
			if peak > limit {
				add("C15", "graph %d of %d sharing tasks: %d of its task functions were executing at the same time, its limit is %d", gi, ng, peak, limit)
			}
		}
	}
	// a Task never executes twice at the same time, across graphs
	{
		open := map[int]Event{}
		for _, e := range tr.Events {
			switch e.Kind {
			case EvEnter:
				if o, ok := open[e.Task]; ok {
					add("C15", "task t%d executes twice at the same time: %v while %v is still running", e.Task, e, o)
				}
				open[e.Task] = e
			case EvExit:
				delete(open, e.Task)
			}
		}
		if ng > 1 && len(tr.TaskCounters) > 0 {
			per := map[int]int{}
			for _, e := range tr.Events {
				if e.Kind == EvEnter {
					per[e.Task]++
				}
			}
			for t, n := range per {
				if tr.TaskCounters[t] != n {
					add("C15", "shared task t%d: unsynchronized per-task counter is %d after %d executions (lost update)", t, tr.TaskCounters[t], n)
				}
			}
		}
	}
	// a buffered graph run from inside a task of a buffered graph: its output goes to its own writer, block by block
	if spec.Buffer && tr.OutputRead && tr.InnerRan && !spec.WriterFails {
		if tr.InnerErr != "" && tr.CancelSeq == 0 {
			add("C15", "nested buffered graph: Run returned %q", tr.InnerErr)
		}
		for k := 0; k < 3 && spec.NestedPlain; k++ {
			// an unbuffered inner graph leaves the context alone: its tasks write into the outer task's buffer
			for j := 1; j <= 2; j++ {
				if strings.Count(tr.Output, fmt.Sprintf("<g7:t%d:1:%d/2>", k, j)) != 1 {
					add("C15", "nested unbuffered graph: chunk %d of inner task i%d is not part of the outer graph's buffered output (it left through another stream)", j, k)
				}
			}
		}
		if spec.NestedPlain {
			tr.Output = regexp.MustCompile(`<g7:t\d+:1:\d/2>`).ReplaceAllString(tr.Output, "")
		}
		for k := 0; k < 3 && !spec.NestedPlain; k++ {
			block := fmt.Sprintf("<g7:t%d:1:1/2><g7:t%d:1:2/2>", k, k)
			if strings.Count(tr.InnerOutput, block) != 1 {
				add("C15", "nested buffered graph: the output of inner task i%d did not reach the inner graph's writer as one contiguous block (inner writer received %q)", k, tr.InnerOutput)
			}
		}
		if strings.Contains(tr.Output, "<g7:") {
			add("C15", "nested buffered graph: output of the inner graph's tasks was delivered to the outer graph's writer")
			tr.Output = regexp.MustCompile(`<g7:t\d+:1:\d/2>`).ReplaceAllString(tr.Output, "")
		}
	}
	// buffered output: every attempt's chunks complete, contiguous, once
	if spec.Buffer && tr.OutputRead && !spec.WriterFails {
		ms := chunkRe.FindAllStringSubmatch(tr.Output, -1)
		rest := strings.ReplaceAll(chunkRe.ReplaceAllString(tr.Output, ""), ".", "")
		if spec.Lines {
			rest = strings.ReplaceAll(rest, "\n", "")
		}
		if rest != "" {
			add("C15", "buffered output contains torn bytes: %q", rest)
		}
		type key struct{ g, t, a int }
		var cur key
		next := 1
		total := 0
		seen := map[key]bool{}
		for i, mm := range ms {
			g, _ := strconv.Atoi(mm[1])
			t, _ := strconv.Atoi(mm[2])
			a, _ := strconv.Atoi(mm[3])
			k, _ := strconv.Atoi(mm[4])
			n, _ := strconv.Atoi(mm[5])
			kk := key{g, t, a}
			if k == 1 {
				if i > 0 && next != total+1 {
					add("C15", "output block of g%d:t%d attempt %d is incomplete (stopped at chunk %d/%d)", cur.g, cur.t, cur.a, next-1, total)
				}
				if seen[kk] {
					add("C15", "output block of g%d:t%d attempt %d appears twice", g, t, a)
				}
				seen[kk] = true
				cur, next, total = kk, 2, n
				continue
			}
			if kk != cur || k != next {
				add("C15", "output of g%d:t%d attempt %d is not one contiguous block: chunk %d/%d found inside the block of g%d:t%d attempt %d", g, t, a, k, n, cur.g, cur.t, cur.a)
				cur, next, total = kk, k+1, n
				continue
			}
			next++
		}
		if len(ms) > 0 && next != total+1 {
			add("C15", "last output block of g%d:t%d attempt %d is incomplete", cur.g, cur.t, cur.a)
		}
		// every finished attempt produced its block
		for _, e := range tr.Events {
			if e.Kind == EvExit && !seen[key{e.Graph, e.Task, e.Attempt}] && spec.QuietMask&(1<<uint(e.Task)) == 0 {
				if rs, ok := runReturn[e.Graph]; ok && e.Seq < rs {
					add("C15", "output of g%d:t%d attempt %d never reached the writer", e.Graph, e.Task, e.Attempt)
				}
			}
		}
	}
	return dedupe(f)
}

func entryTexts(es []ErrEntry) []string {
	var out []string
	for _, e := range es {
		out = append(out, e.Text)
	}
	return out
}

func dedupe(f []Finding) []Finding {
	seen := map[string]bool{}
	var out []Finding
	for _, x := range f {
		k := x.Prop + x.Msg
		if !seen[k] {
			seen[k] = true
			out = append(out, x)
		}
	}
	sort.SliceStable(out, func(i, j int) bool { return out[i].Prop < out[j].Prop })
	return out
}

// Signature - the observed interleaving: sequence of (kind, task, attempt) events.
func (tr *Trace) Signature() string {
	var sb strings.Builder
	for _, e := range tr.Events {
		switch e.Kind {
		case EvEnter:
			fmt.Fprintf(&sb, "+%d.%d.%d ", e.Graph, e.Task, e.Attempt)
		case EvExit:
			fmt.Fprintf(&sb, "-%d.%d.%d%s ", e.Graph, e.Task, e.Attempt, outcomeNames[e.Outcome][:1])
		case EvCancel:
			sb.WriteString("X ")
		case EvRunReturn:
			fmt.Fprintf(&sb, "R%d ", e.Graph)
		}
	}
	return sb.String()
}
